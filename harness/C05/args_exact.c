/* C05, memory safety of the type clause (bounded): rtosc_match on a message that lives in an object of EXACTLY
 * its OSC size (address, padding, ",types", padding, 4 payload bytes per i/f tag) must not read outside it.
 *   C05_PAT    the pattern (concrete), C05_ADDR the address (concrete), C05_TYPES the type tags over {i,f,T,F,N,I}
 * Symbolic: the payload bytes. The result is compared with the spec as well.
 * Known signature "args-overread": a type alternative longer than the bytes left behind the ',' of the message. */
#include "verif.h"
#include <rtosc/rtosc.h>
#include "pattern_spec.h"
#include RTOSC_C
#include DISPATCH_C

#define AL    (sizeof(C05_ADDR) - 1)
#define TL    (sizeof(C05_TYPES) - 1)
#define APAD  ((AL / 4 + 1) * 4)
#define TPAD  (((TL + 1) / 4 + 1) * 4)
#define NPAY  (4 * TL)                 /* upper bound; tags without payload are subtracted below */

struct in_c05a { uint8_t pay[NPAY ? NPAY : 1]; };
V_INPUT(in_c05a)

void h_args_exact(void)
{
    in_init();
    static const char addr[] = C05_ADDR, types[] = C05_TYPES, pat[] = C05_PAT;
    unsigned npay = 0;
    for(unsigned k = 0; k < TL; k++) if(types[k] == 'i' || types[k] == 'f') npay += 4;
    unsigned total = APAD + TPAD + npay;
    char *buf = V_MALLOC(total);
    for(unsigned k = 0; k < APAD; k++) buf[k] = k < AL ? addr[k] : 0;
    buf[APAD] = ',';
    for(unsigned k = 1; k < TPAD; k++) buf[APAD + k] = k <= TL ? types[k - 1] : 0;
    for(unsigned k = 0; k < npay; k++) buf[APAD + TPAD + k] = (char)IN.pay[k];

    /* longest type alternative of the pattern vs. bytes behind the ',' */
    unsigned longest = 0, cur = 0; bool in_types = false;
    for(unsigned k = 0; pat[k]; k++) {
        if(pat[k] == ':') { in_types = true; cur = 0; }
        else if(in_types) { cur++; if(cur > longest) longest = cur; }
    }
    if(longest > total - APAD - 1) V_KF("args-overread");

    V_ASSERT(wf_pattern(pat), "harness self-check: pattern is well-formed");
    int  s = spec_match_at(pat, buf, AL);
    bool c = rtosc_match(pat, buf, NULL);       /* any read outside buf is a pointer failure / an ASan trap */
    V_COVER(c || !c);                            /* vacuity guard: the call is reached and returns */
    V_ASSERT(s != SPEC_YES || c,  "C05 the statement demands a match but rtosc_match says no");
    V_ASSERT(s != SPEC_NO  || !c, "C05 the statement forbids a match but rtosc_match says yes");
}
