/* C05 (bounded, exhaustive per batch): rtosc_match(pattern, msg, NULL) against spec_match (spec/pattern_spec.h).
 *
 * Fixed per obligation (chosen by the generator in props/C05.py, passed with -D):
 *   C05_PATS      the batch of patterns, e.g. "a#2/","{a,b}c:i:f"      (concrete strings)
 *   C05_NPAT      their number
 *   C05_AL        the address length
 *   C05_KFGROUP   1: every pattern of the batch has an alternative that is a proper prefix of another
 *   C05_COLON     1: the address contains at least one ':' (legal in OSC 1.0, but see findings)
 *   C05_PART      0: everything EXCEPT the two known signatures is asserted
 *                 1: ONLY the known signatures are asserted (these obligations fail while the findings stand)
 * Symbolic: every address byte (any non-NUL byte; ':' only when C05_COLON), the type tag string (length 0..3,
 * any non-NUL bytes), and the 4+C05_TAIL bytes after the type tags (argument payload / whatever follows the
 * message in its buffer).
 *
 * Known signatures (printed as KF tags in the native replay):
 *   prefix-alternative : pattern has a prefix alternative, statement demands a match, code says no
 *   colon-in-address   : address contains ':', pattern has type alternatives, statement forbids, code says yes */
#include "verif.h"
#include <rtosc/rtosc.h>
#include "pattern_spec.h"
#include RTOSC_C
#include DISPATCH_C

#ifndef C05_TAIL
#define C05_TAIL 8
#endif
#ifndef C05_KFGROUP
#define C05_KFGROUP 0
#endif
#ifndef C05_COLON
#define C05_COLON 0
#endif
#ifndef C05_PART
#define C05_PART 0
#endif
#define APAD  ((C05_AL / 4 + 1) * 4)
#define TOTAL (APAD + 8 + C05_TAIL)

struct in_c05 { uint8_t addr[C05_AL ? C05_AL : 1]; uint8_t tl; uint8_t types[3]; uint8_t tail[4 + C05_TAIL]; };
V_INPUT(in_c05)

static const char *const PATS[C05_NPAT] = { C05_PATS };

void h_match_eq(void)
{
    in_init();
    char *buf = V_MALLOC(TOTAL);
    bool has_colon = false;
    for(unsigned k = 0; k < C05_AL; k++) {
        char c = (char)IN.addr[k];
        V_ASSUME(c != 0 && (C05_COLON || c != ':'));
        if(c == ':') has_colon = true;
        buf[k] = c;
    }
    V_ASSUME(has_colon == (C05_COLON != 0));
    for(unsigned k = C05_AL; k < APAD; k++) buf[k] = 0;
    buf[APAD] = ',';
    unsigned tl = IN.tl;
    V_ASSUME(tl <= 3);
    for(unsigned k = 0; k < 3; k++) {
        if(k < tl) { V_ASSUME(IN.types[k] != 0); buf[APAD + 1 + k] = (char)IN.types[k]; }
        else buf[APAD + 1 + k] = 0;
    }
    for(unsigned k = 0; k < 4 + C05_TAIL; k++)
        buf[APAD + 4 + k] = (tl == 3 && k < 4) ? 0 : (char)IN.tail[k];

    V_ASSERT(spec_addr_len(buf) == C05_AL && spec_types(buf) == buf + APAD + 1, "harness self-check: message layout");

    for(unsigned n = 0; n < C05_NPAT; n++) {
        const char *p = PATS[n];
        V_ASSERT(wf_pattern(p), "harness self-check: generated pattern is well-formed");
        bool kf = spec_has_prefix_alternative(p);
        V_ASSERT(kf == (C05_KFGROUP != 0), "harness self-check: generator and spec agree on prefix alternatives");
        bool typed = false;
        for(unsigned k = 0; p[k]; k++) if(p[k] == ':') typed = true;
        if(C05_AL == 0 && typed) continue;       /* rtosc_argument_string: assert(msg && *msg) - address not empty */

        int  s = spec_match_at(p, buf, C05_AL);
        bool c = rtosc_match(p, buf, NULL);

        bool sig_prefix = kf && s == SPEC_YES && !c;
        bool sig_colon  = has_colon && typed && s == SPEC_NO && c;
#ifdef VERIF_REPLAY
        fprintf(stderr, "pattern \"%s\"  address \"%s\"  types \"%s\"  rtosc_match=%d  spec=%s\n", p, buf, buf + APAD + 1,
                (int)c, s == SPEC_YES ? "must match" : s == SPEC_NO ? "must not match" : "either");
        if(sig_prefix) V_KF("prefix-alternative");
        if(sig_colon)  V_KF("colon-in-address");
#endif
        V_COVER(s == SPEC_YES && c);
        V_COVER(s == SPEC_NO && !c);
        V_COVER(s == SPEC_EITHER);
#if C05_PART == 0
        if(sig_prefix || sig_colon) continue;
        V_ASSERT(s != SPEC_YES || c,  "C05 the statement demands a match (literal text, index < N, one of the alternatives, end of path, type string equal to an alternative) but rtosc_match says no");
        V_ASSERT(s != SPEC_NO  || !c, "C05 the statement forbids a match (index >= N, missing/extra/different character, type string neither equal to nor an extension of an alternative) but rtosc_match says yes");
#else
        V_ASSERT(!sig_prefix, "C05 known signature prefix-alternative: an alternative that is a proper prefix of another is matched without backtracking");
        V_ASSERT(!sig_colon,  "C05 known signature colon-in-address: the address spells the pattern's ':types' text and matches with any type string");
#endif
    }
}
