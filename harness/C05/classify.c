/* native helper of props/C05.py: classifies generated patterns with the spec's own predicates, so that the
 * generator holds no second copy of wf_pattern / spec_has_prefix_alternative. stdin: one pattern per line;
 * stdout: "<wf> <prefix-alternative>" per line. */
#include <stdio.h>
#include <string.h>
#include "pattern_spec.h"
int main(void)
{
    char line[512];
    while(fgets(line, sizeof line, stdin)) {
        line[strcspn(line, "\n")] = 0;
        int wf = wf_pattern(line);
        printf("%d %d\n", wf, wf ? (int)spec_has_prefix_alternative(line) : 0);
    }
    return 0;
}
