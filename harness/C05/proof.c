/* C05 proof-mode harnesses: arbitrary NUL-terminated strings. Each harness builds two string objects of
 * symbolic size 1..4096 whose last byte is NUL (all other bytes arbitrary), points the cursors at
 * arbitrary offsets, and calls one real function; its contract (contracts/dispatch_match.h) is enforced
 * by goto-instrument --dfcc, callees are replaced by their contracts, loops carry the loop contracts of
 * contracts/dispatch_match.loops (injected into a scratch copy of dispatch.c). */
#include "verif.h"
#include "dispatch_match.h"
#include DISPATCH_C

static void strings(void)
{
    size_t pn, mn;
    __CPROVER_assume(pn >= 1 && pn <= C05_MAXSTR && mn >= 1 && mn <= C05_MAXSTR);
    char *pb = malloc(pn), *mb = malloc(mn);
    __CPROVER_assume(pb[pn - 1] == 0 && mb[mn - 1] == 0);
    G_PB = pb; G_PN = pn; G_MB = mb; G_MN = mn;
}

void h_match_number(void)
{
    strings();
    size_t po, mo;
    __CPROVER_assume(po < G_PN && mo < G_MN);
    const char *p = G_PB + po, *m = G_MB + mo;
    bool r = rtosc_match_number(&p, &m);
    V_COVER(r);
    V_COVER(!r);
}

/* bounded: both strings are objects of exactly C05_OPT_N bytes, every byte but the final NUL arbitrary
 * (an earlier NUL gives every shorter string); all loops unwound, unwinding assertions on. */
#ifndef C05_OPT_N
#define C05_OPT_N 8
#endif
void h_match_options(void)
{
    char *pb = malloc(C05_OPT_N), *mb = malloc(C05_OPT_N);
    __CPROVER_assume(pb[C05_OPT_N - 1] == 0 && mb[C05_OPT_N - 1] == 0);
    G_PB = pb; G_PN = C05_OPT_N; G_MB = mb; G_MN = C05_OPT_N;
    size_t po, mo;
    __CPROVER_assume(po < G_PN && mo < G_MN);
    const char *m = G_MB + mo;
    const char *r = rtosc_match_options(G_PB + po, &m);
    V_COVER(r != NULL);
    V_COVER(r == NULL);
}

void h_match_path(void)
{
    strings();
    size_t po, mo;
    __CPROVER_assume(po < G_PN && mo < G_MN);
    const char *end;
    _Bool want_end;
    const char *r = rtosc_match_path(G_PB + po, G_MB + mo, want_end ? &end : NULL);
    V_COVER(r != NULL && want_end);
    V_COVER(r == NULL);
}
