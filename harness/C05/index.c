/* C05, the enumeration clause (bounded, exhaustive per shape): "carries a decimal index strictly smaller than N;
 * no index >= N ever matches", with leading zeros and up to 9 digits.
 *
 * Fixed per obligation (-D, chosen in props/C05.py):
 *   C05_PAT   the pattern, concrete: PRE '#' N PSUF        e.g. "x#10/", "#999999999y", "x#007:i"
 *   C05_PRE_L length of PRE (the address starts with the same literal text)
 *   C05_MD    number of digits of the index in the address (1..9)
 *   C05_SL    number of address bytes after the index (0..2)
 * Symbolic: every digit of the index (so for N of d digits and C05_MD >= d: N-1, N, N+1, all leading-zero
 * spellings, 0..10^MD-1), the address bytes after the index (the first one is not a digit, so the index has
 * exactly C05_MD digits; any byte but NUL and ':' otherwise), the type tag string (0..2 arbitrary tags), 8 bytes behind it.
 * (The digits of N stay concrete: symbolic pattern bytes make every `*pattern == '{'` test of the matcher
 *  symbolic - measured 220 s for the smallest shape instead of 1 s.) */
#include "verif.h"
#include <rtosc/rtosc.h>
#include "pattern_spec.h"
#include RTOSC_C
#include DISPATCH_C

#define AL     (C05_PRE_L + C05_MD + C05_SL)
#define APAD   ((AL / 4 + 1) * 4)
#define TOTAL  (APAD + 4 + 8)

struct in_c05i { uint8_t v[9]; uint8_t suf[2]; uint8_t tl; uint8_t types[2]; uint8_t tail[8]; };
V_INPUT(in_c05i)

void h_index(void)
{
    in_init();
    static const char pat[] = C05_PAT;
    char *buf = V_MALLOC(TOTAL);
    uint64_t N = 0, V = 0;
    unsigned o = 0;
    V_ASSERT(pat[C05_PRE_L] == '#', "harness self-check: shape");
    for(unsigned k = C05_PRE_L + 1; spec_is_digit(pat[k]); k++) N = N * 10 + (uint64_t)(pat[k] - '0');

    for(unsigned k = 0; k < C05_PRE_L; k++) buf[o++] = pat[k];
    for(unsigned k = 0; k < C05_MD; k++) { V_ASSUME(IN.v[k] <= 9); buf[o++] = (char)('0' + IN.v[k]); V = V * 10 + IN.v[k]; }
    for(unsigned k = 0; k < C05_SL; k++) {
        char c = (char)IN.suf[k];
        V_ASSUME(c != 0 && c != ':' && (k > 0 || !spec_is_digit(c)));
        buf[o++] = c;
    }
    for(; o < APAD; o++) buf[o] = 0;
    buf[APAD] = ',';
    unsigned tl = IN.tl;
    V_ASSUME(tl <= 2);
    for(unsigned k = 0; k < 3; k++) {
        if(k < tl) { V_ASSUME(IN.types[k] != 0); buf[APAD + 1 + k] = (char)IN.types[k]; }
        else buf[APAD + 1 + k] = 0;
    }
    for(unsigned k = 0; k < 8; k++) buf[APAD + 4 + k] = (char)IN.tail[k];

    V_ASSERT(wf_pattern(pat), "harness self-check: generated pattern is well-formed");
    int  s = spec_match_at(pat, buf, AL);
    bool c = rtosc_match(pat, buf, NULL);
#ifdef VERIF_REPLAY
    fprintf(stderr, "pattern \"%s\"  address \"%s\"  types \"%s\"  N=%llu index=%llu  rtosc_match=%d  spec=%s\n", pat, buf,
            buf + APAD + 1, (unsigned long long)N, (unsigned long long)V, (int)c,
            s == SPEC_YES ? "must match" : s == SPEC_NO ? "must not match" : "either");
#endif
    V_ASSERT(V < N || !c, "C05 an index >= N never matches");
    V_ASSERT(s != SPEC_YES || c,  "C05 the statement demands a match (index < N, leading zeros allowed) but rtosc_match says no");
    V_ASSERT(s != SPEC_NO  || !c, "C05 the statement forbids a match but rtosc_match says yes");
    V_COVER(c && V + 1 == N);
    V_COVER(!c && V == N);
    V_COVER(!c && V == N + 1);
    V_COVER(c && V < N && IN.v[0] == 0);
}
