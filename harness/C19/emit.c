/* C19 - the emitted message (linear scale).
 *
 *   "every message an automation slot emits goes to the bound parameter's address with the bound parameter's type
 *    and a value inside that parameter's declared [min,max] (true/false for toggles) that never decreases when the
 *    slot value increases (for positive gain) and, at the default gain and offset, maps slot values 0..1 linearly
 *    onto min..max."
 *
 * Code: setSlotSub (maps, clamps, builds the message, hands it to the backend) and updateMapping (gain/offset ->
 * control points), extracted from src/cpp/automations.cpp. rtosc_message is the recorder of c19_common.h.
 * h_emit_addr_type has no floating-point reasoning; the other entries are floating-point obligations (CBMC's
 * bit-precise IEEE-754 model, round-to-nearest) and carry a time-out - an obligation that does not finish is
 * reported undecided, never as held.  Log scale (control_scale == 1: expf) is not covered.
 *
 * Domain of the numeric obligations (stated, input-domain preconditions):
 *   D_RANGE   param_min <= param_max, both finite, |.| <= 2^100   (so that mn+mx, mx-mn cannot overflow)
 *   D_CP      control points a = cp[1], b = cp[3] finite with |.| <= 2^100 (what updateMapping yields under D_RANGE
 *             and |gain|,|offset| <= 2^20: obligation updateMapping.points)
 *   D_VALUE   the slot value is finite (any magnitude, inside and outside [0,1])
 *   D_INT     for type 'i': param_min, param_max integral and |.| <= 2^30 (roundf of a clamped value then stays
 *             inside; non-integral integer bounds are not covered)
 *   D_EXACT   for the exact end points: min = km/256, max = kx/256 with integers |km|,|kx| <= 2^16 - all arithmetic of
 *             updateMapping is then exact. (For arbitrary floats the end points are only met up to rounding.) */
#include "c19_common.h"
#include "automations.h"
#include <math.h>

static struct Automation *AU;      /* the automation addressed by (IN.slot, IN.sub) */
static int SI, SJ;

struct emitted { unsigned n; char tag; int ival; float fval; int i, j; bool tag_ok; };

static struct emitted emit_once(float x)
{
    struct emitted e;
    unsigned n0 = REC.n_msg;
    AutomationMgr_setSlotSub(&M, SI, SJ, x);
    e.n = REC.n_msg - n0; e.tag = REC.tag; e.ival = REC.ival; e.fval = REC.fval; e.i = REC.last_i; e.j = REC.last_j;
    e.tag_ok = REC.tag_len_ok;
    return e;
}

static bool finite_le(float f, float bound) { return !isnan(f) && f <= bound && f >= -bound; }
#define TWO100 1.2676506e30f          /* 2^100 */
#define TWO20  1048576.0f
#define TWO30  1073741824.0f

/* The numeric obligations address ONE automation with constant indices (PICK_I, PICK_J; default: the last one), so
 * that they are not burdened with symbolic addressing: the computation reads and writes only the fields of the
 * addressed automation - that the addressing is right for every index is h_emit_addr_type and the setSlot contract. */
#ifndef PICK_I
#define PICK_I (NS - 1)
#endif
#ifndef PICK_J
#define PICK_J (PS - 1)
#endif
static void pick(void)
{
    c19_setup();
    SI = PICK_I; SJ = PICK_J;
    AU = &M.slots[PICK_I].automations[PICK_J];
}

/* ------------------------------------------------------------------ address, type, exactly-one message (no FP) */
void h_emit_addr_type(void)
{
    c19_setup();
    static struct c19_deep d0, d1;
    c19_deep_snap(&d0);
    int i = IN.slot, j = IN.sub;
    bool in = i >= 0 && i < CN && j >= 0 && j < CPS;
    V_COVER(in && (IN.a_used[i][j] & 1) && IN.a_type[i][j] == 'f' && IN.has_backend);
    V_COVER(in && (IN.a_used[i][j] & 1) && IN.a_type[i][j] == 'T');
    V_COVER(!in);
    AutomationMgr_setSlotSub(&M, i, j, c19_f(IN.f));            /* symbolic indices: every int */
    c19_deep_snap(&d1);
    V_ASSERT(c19_deep_eq(&d0, &d1, -1), "C19 setSlotSub changes nothing in the manager");
    char t = in ? (char)IN.a_type[i][j] : 0;
    bool expect = in && (IN.a_used[i][j] & 1) && c19_known_type(t);
    V_ASSERT(REC.n_msg == (expect ? 1u : 0u), "C19 exactly one message for a used parameter of known type, none otherwise");
    V_ASSERT(REC.n_emit == (IN.has_backend ? REC.n_msg : 0) && REC.emit_mismatch == 0, "C19 the message built is what the backend gets");
    if(REC.n_msg) {
        V_ASSERT(REC.last_i == i && REC.last_j == j && REC.n_foreign == 0, "C19 message goes to the bound parameter's address (param_path of that automation)");
        V_ASSERT(REC.tag_len_ok, "C19 message carries exactly one argument tag");
        if(t == 'i') V_ASSERT(REC.tag == 'i', "C19 integer parameter gets an 'i' message");
        if(t == 'f') V_ASSERT(REC.tag == 'f', "C19 float parameter gets an 'f' message");
        if(t == 'T' || t == 'F') V_ASSERT(REC.tag == 'T' || REC.tag == 'F', "C19 toggle gets true or false");
    }
}

/* ------------------------------------------------------------------ value inside [min,max] */
void h_emit_range(void)
{
    pick();
    {
        float mn = AU->param_min, mx = AU->param_max, a = AU->map.control_points[1], b = AU->map.control_points[3];
        float x = c19_f(IN.f);
        V_ASSUME(AU->used && AU->map.control_scale != 1);
        V_ASSUME(finite_le(mn, TWO100) && finite_le(mx, TWO100) && mn <= mx);          /* D_RANGE */
        V_ASSUME(finite_le(a, TWO100) && finite_le(b, TWO100));                        /* D_CP */
        V_ASSUME(!isnan(x) && !isinf(x));                                              /* D_VALUE */
#if defined(TYPE_I)
        V_ASSUME(AU->param_type == 'i');
        V_ASSUME(finite_le(mn, TWO30) && finite_le(mx, TWO30) && mn == (float)(int)mn && mx == (float)(int)mx);   /* D_INT */
        V_COVER(x > 2.0f && b > a);
        struct emitted e = emit_once(x);
        V_ASSERT(e.n == 1 && e.tag == 'i', "C19 one 'i' message");
        V_ASSERT((double)e.ival >= (double)mn && (double)e.ival <= (double)mx, "C19 integer value inside [param_min, param_max]");
#else
        V_ASSUME(AU->param_type == 'f');
        V_COVER(x > 2.0f && b > a);
        struct emitted e = emit_once(x);
        V_ASSERT(e.n == 1 && e.tag == 'f', "C19 one 'f' message");
        V_ASSERT(e.fval >= mn && e.fval <= mx, "C19 float value inside [param_min, param_max]");
#endif
    }
}

/* ------------------------------------------------------------------ monotone in the slot value when b >= a */
static int toggle_rank(char tag) { return tag == 'T' ? 1 : 0; }
void h_emit_monotone(void)
{
    pick();
    {
        float mn = AU->param_min, mx = AU->param_max, a = AU->map.control_points[1], b = AU->map.control_points[3];
        float x = c19_f(IN.f), y = c19_f(IN.f2);
        V_ASSUME(AU->used && AU->map.control_scale != 1);
        V_ASSUME(finite_le(mn, TWO100) && finite_le(mx, TWO100) && mn <= mx);
        V_ASSUME(finite_le(a, TWO100) && finite_le(b, TWO100) && a <= b);              /* positive gain: b >= a */
        V_ASSUME(!isnan(x) && !isinf(x) && !isnan(y) && !isinf(y) && x <= y);
#ifdef SPAN_POW2
        /* restricted domain: the span b-a is zero or a power of two, so value*(b-a) only changes the exponent. Shows
         * that the stages after the multiplication (add, clamp, roundf, conversion, threshold) keep the order; the
         * general case needs "x <= y, d >= 0 => fl(x*d) <= fl(y*d)" (IEEE-754 round-to-nearest multiplication is
         * monotone), which CBMC does not decide in an hour. */
        V_ASSUME((c19_u(b - a) & 0x007fffffu) == 0);
#endif
#if defined(TYPE_I)
        V_ASSUME(AU->param_type == 'i');
        V_ASSUME(finite_le(mn, TWO30) && finite_le(mx, TWO30));
        V_COVER(x < y && a < b);
        struct emitted e1 = emit_once(x); struct emitted e2 = emit_once(y);
        V_ASSERT(e1.n == 1 && e2.n == 1, "C19 one message each");
        V_ASSERT(e1.ival <= e2.ival, "C19 integer value never decreases when the slot value increases");
#elif defined(TYPE_T)
        V_ASSUME(AU->param_type == 'T' || AU->param_type == 'F');
        V_COVER(x < y && a < b);
        struct emitted e1 = emit_once(x); struct emitted e2 = emit_once(y);
        V_ASSERT(e1.n == 1 && e2.n == 1, "C19 one message each");
        V_ASSERT(toggle_rank(e1.tag) <= toggle_rank(e2.tag), "C19 toggle never goes from true to false when the slot value increases");
#else
        V_ASSUME(AU->param_type == 'f');
        V_COVER(x < y && a < b);
        struct emitted e1 = emit_once(x); struct emitted e2 = emit_once(y);
        V_ASSERT(e1.n == 1 && e2.n == 1, "C19 one message each");
        V_ASSERT(e1.fval <= e2.fval, "C19 float value never decreases when the slot value increases");
#endif
    }
}

/* ------------------------------------------------------------------ updateMapping: control points finite and ordered */
void h_updateMapping_points(void)
{
    pick();
    {
        float mn = AU->param_min, mx = AU->param_max, g = AU->map.gain, o = AU->map.offset;
        V_ASSUME(finite_le(mn, TWO100) && finite_le(mx, TWO100) && mn <= mx);
        V_ASSUME(finite_le(g, TWO20) && finite_le(o, TWO20));
        V_COVER(g > 0 && mn < mx);
        AutomationMgr_updateMapping(&M, SI, SJ);
        float a = AU->map.control_points[1], b = AU->map.control_points[3];
        V_ASSERT(!isnan(a) && !isnan(b) && !isinf(a) && !isinf(b), "C19 updateMapping: control points finite (D_CP)");
#ifdef POINTS_MAGNITUDE
        V_ASSERT(finite_le(a, TWO100 * 4194304.0f) && finite_le(b, TWO100 * 4194304.0f), "C19 updateMapping: |control points| <= 2^122");
#endif
        if(g >= 0) V_ASSERT(a <= b, "C19 updateMapping: non-negative gain gives b >= a (increasing map)");
        V_ASSERT(AU->map.control_points[0] == 0.0f && AU->map.control_points[2] == 1.0f && AU->map.upoints == 2,
                 "C19 updateMapping: the two control points sit at slot values 0 and 1");
    }
}

/* ------------------------------------------------------------------ default gain/offset: 0..1 -> min..max, linearly */
void h_emit_default_linear(void)
{
    pick();
    int km = IN.channel, kx = IN.cc;                       /* reuse two int inputs: min = km/256, max = kx/256 */
    V_ASSUME(km >= -65536 && km <= 65536 && kx >= -65536 && kx <= 65536 && km <= kx);    /* D_EXACT */
#if defined(TYPE_I)
    V_ASSUME((km & 255) == 0 && (kx & 255) == 0);
#endif
    {
        float mn = (float)km * 0.00390625f, mx = (float)kx * 0.00390625f;
        float x = c19_f(IN.f);
        AU->param_min = mn; AU->param_max = mx;
        AU->map.gain = 100.0f; AU->map.offset = 0.0f;       /* the defaults createBinding / clearSlotSub set */
        V_ASSUME(AU->used && AU->map.control_scale != 1);
        V_ASSUME(x >= 0.0f && x <= 1.0f);
        AutomationMgr_updateMapping(&M, SI, SJ);
        V_ASSERT(AU->map.control_points[1] == mn && AU->map.control_points[3] == mx,
                 "C19 default gain/offset: control points are exactly (param_min, param_max)");
#if defined(TYPE_I)
        V_ASSUME(AU->param_type == 'i');
        V_COVER(km < kx);
        struct emitted e0 = emit_once(0.0f); struct emitted e1 = emit_once(1.0f);
        V_ASSERT(e0.n == 1 && e1.n == 1 && e0.ival == km / 256 && e1.ival == kx / 256, "C19 default mapping: slot value 0 -> min, 1 -> max (integer parameter)");
#ifdef LINEAR_MID
        struct emitted ex = emit_once(x);
        V_ASSERT(ex.n == 1 && ex.ival == (int)roundf(lq_linear(mn, mx, x)), "C19 default mapping: value = round(min + x*(max-min)) for x in [0,1]");
#endif
#elif defined(TYPE_T)
        V_ASSUME(AU->param_type == 'T' && km == 0 && kx == 256);     /* toggles are bound with [0,1] */
        V_COVER(true);
        struct emitted e0 = emit_once(0.0f); struct emitted e1 = emit_once(1.0f);
        V_ASSERT(e0.n == 1 && e1.n == 1 && e0.tag == 'F' && e1.tag == 'T', "C19 default mapping: slot value 0 -> false, 1 -> true");
#else
        V_ASSUME(AU->param_type == 'f');
        V_COVER(km < kx);
        struct emitted e0 = emit_once(0.0f); struct emitted e1 = emit_once(1.0f);
        V_ASSERT(e0.n == 1 && e1.n == 1 && e0.fval == mn && e1.fval == mx, "C19 default mapping: slot value 0 -> min, 1 -> max (float parameter)");
#ifdef LINEAR_MID
        struct emitted ex = emit_once(x);
        float want = lq_linear(mn, mx, x);
        V_ASSERT(ex.n == 1 && (ex.fval == want || (want > mx && ex.fval == mx) || (want < mn && ex.fval == mn)),
                 "C19 default mapping: value = min + x*(max-min) (clamped to [min,max]) for x in [0,1]");
#endif
#endif
    }
}

/* ------------------------------------------------------------------ arbitrary finite bounds: are the end points exact? */
void h_emit_default_endpoints_anyfloat(void)
{
    pick();
    {
        float mn = AU->param_min, mx = AU->param_max;
        V_ASSUME(finite_le(mn, TWO20) && finite_le(mx, TWO20) && mn <= mx);
        AU->map.gain = 100.0f; AU->map.offset = 0.0f;
        V_ASSUME(AU->used && AU->map.control_scale != 1 && AU->param_type == 'f');
        AutomationMgr_updateMapping(&M, SI, SJ);
        struct emitted e0 = emit_once(0.0f); struct emitted e1 = emit_once(1.0f);
        V_ASSERT(e0.n == 1 && e1.n == 1 && e0.fval == mn && e1.fval == mx, "C19 default mapping, any finite bounds: slot value 0 -> min, 1 -> max exactly");
    }
}
