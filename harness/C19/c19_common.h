/* C19 - shared harness part: builds an AutomationMgr with NS slots x PS sub-automations (exact-size heap
 * objects, as the constructor allocates them; with -DSYMCFG: nslots <= NS, per_slot <= PS symbolic over
 * maximal-size objects) whose every field the extracted code reads comes from the input struct IN; recorder stubs for rtosc_message / backend / snprintf; snapshots of the queue-relevant state.
 *
 * The code under verification is ctx.ext/automations_ext.h: the method bodies of src/cpp/automations.cpp,
 * extracted mechanically on every run (props/C19.py, DESIGN section 4 route R2). */
#ifndef C19_COMMON_H
#define C19_COMMON_H
#include "verif.h"
#include <stdarg.h>
#ifndef NS
#define NS 6
#endif
#ifndef PS
#define PS 3
#endif
#define LQ_MAXN 6
#include "lq_spec.h"
#include "automations_ext.h"

#if NS < 1 || NS > 6 || PS < 1 || PS > 3
#error "C19 configuration space is 1..6 slots x 1..3 sub-automations"
#endif
#define NCP 4      /* control points per automation; updateMapping writes [0..3] (precondition npoints >= 4) */

struct in_c19 {
    /* state: queue + bindings */
    int32_t  learning[NS], midi_cc[NS], midi_nrpn[NS], k;
    int32_t  nrpn_reg[4];
    int32_t  damaged, active_slot;
    uint8_t  s_used[NS], s_active[NS];
    uint32_t s_cur[NS];                      /* current_state, float bits */
    /* state: automations */
    uint8_t  a_used[NS][PS], a_active[NS][PS], a_rel[NS][PS];
    int8_t   a_type[NS][PS];
    int32_t  a_scale[NS][PS], a_ctype[NS][PS], a_upoints[NS][PS];
    uint32_t a_min[NS][PS], a_max[NS][PS], a_base[NS][PS], a_step[NS][PS], a_gain[NS][PS], a_off[NS][PS];
    uint32_t a_cp[NS][PS][NCP];
    uint8_t  has_backend;
    /* operation arguments */
    int32_t  nslots, per_slot;               /* configuration (used when SYMCFG; else the constants NS, PS) */
    int32_t  slot, sub, channel, cc, val;
    uint32_t f, f2;                          /* float arguments, bits */
    uint8_t  learn;
};
V_INPUT(in_c19)

static struct AutomationMgr M;
/* Configuration. Default: exactly NS x PS, exact-size heap objects (any access outside traps).
 * -DSYMCFG: nslots in 1..NS and per_slot in 1..PS are symbolic inputs - ONE obligation then covers the whole
 * configuration space; the heap objects have the maximal size, and every obligation shows that the elements
 * beyond nslots/per_slot are never written (reads beyond them would go unnoticed: that is what the exact-size
 * per-configuration obligations of the thorough tier are for). */
static int CN, CPS;

/* float <-> bit pattern through a union (verif.h's memcpy versions cost CBMC ~0.1 s of symbolic execution each,
 * and this harness converts several hundred fields) */
static inline float    c19_f(uint32_t u) { union { uint32_t u; float f; } x; x.u = u; return x.f; }
static inline uint32_t c19_u(float f)    { union { uint32_t u; float f; } x; x.f = f; return x.u; }

/* ------------------------------------------------------------------------------------------------ recorder
 * ASSUMPTION (stated in props/C19.py): rtosc_message(buf, len, address, args, ...) writes the OSC message
 * <address, args, values> into buf - its contract, decided under C01. Here it only records what it was asked to
 * write; backend(msg) is "the slot emits msg". */
static struct {
    unsigned n_msg, n_emit, n_foreign;
    unsigned per[NS][PS];          /* messages whose address is &slots[i].automations[j].param_path[0] */
    int      last_i, last_j;       /* owner of the last message (-1: address is nobody's param_path) */
    char     tag, tag_len_ok;
    int      ival;
    float    fval;
    const char *buf;               /* buffer of the last rtosc_message */
    unsigned emit_mismatch;        /* backend called with something that is not the buffer just built */
} REC;

size_t rtosc_message(char *buffer, size_t len, const char *address, const char *arguments, ...)
{
    va_list va;
    REC.n_msg++;
    REC.buf = buffer;
    REC.last_i = REC.last_j = -1;
    for(int i = 0; i < NS; i++)
        for(int j = 0; j < PS; j++)
            if(address == M.slots[i].automations[j].param_path) { REC.per[i][j]++; REC.last_i = i; REC.last_j = j; }
    if(REC.last_i < 0) REC.n_foreign++;
    REC.tag = arguments[0];
    REC.tag_len_ok = (arguments[0] != 0 && arguments[1] == 0);
    va_start(va, arguments);
    if(arguments[0] == 'i') REC.ival = va_arg(va, int);
#ifdef VERIF_CBMC
    /* CBMC 6.11 quirk: its C front end does not apply the default argument promotion float -> double to variadic
     * arguments (a 4-byte object is passed), so under CBMC the value is read in the width it was passed. */
    if(arguments[0] == 'f') REC.fval = va_arg(va, float);
#else
    if(arguments[0] == 'f') REC.fval = (float)va_arg(va, double);   /* what rtosc_vmessage does with an 'f' */
#endif
    va_end(va);
    V_ASSERT(len == 256, "C19 rtosc_message is given the capacity of its buffer");
    return 16;
}

static void rec_backend(const char *msg)
{
    REC.n_emit++;
    if(msg != REC.buf) REC.emit_mismatch++;
}

#ifndef VERIF_REPLAY
/* snprintf (clearSlot re-creates the slot name): CBMC has no usable model. ASSUMED contract: writes at most n
 * bytes to s, nothing else. The name is not part of the property. The native replay uses libc's. */
int snprintf(char *s, size_t n, const char *fmt, ...)
{
    V_ASSERT(__CPROVER_w_ok(s, n), "C19 snprintf destination holds n bytes");
    if(n) s[n - 1] = 0;
    return 6;
}
#endif

/* ------------------------------------------------------------------------------------------------ set-up */
static const char C19_PATHS[6][3][8] = {
    {"/p/a0", "/p/a1", "/p/a2"}, {"/q/b0", "/q/b1", "/q/b2"}, {"/r/c0", "/r/c1", "/r/c2"},
    {"/s/d0", "/s/d1", "/s/d2"}, {"/t/e0", "/t/e1", "/t/e2"}, {"/u/f0", "/u/f1", "/u/f2"}};

static void c19_setup(void)
{
    in_init();
    memset(&REC, 0, sizeof REC);
#ifdef SYMCFG
    V_ASSUME(IN.nslots >= 1 && IN.nslots <= NS && IN.per_slot >= 1 && IN.per_slot <= PS);
    CN = IN.nslots; CPS = IN.per_slot;
#else
    CN = NS; CPS = PS;
#endif
    M.nslots = CN; M.per_slot = CPS;
    M.active_slot = IN.active_slot; M.learn_queue_len = IN.k; M.impl = 0; M.p = 0; M.instance = 0;
    M.backend = IN.has_backend ? rec_backend : 0;
    M.damaged = IN.damaged;
    M.NRPN.parhi = IN.nrpn_reg[0]; M.NRPN.parlo = IN.nrpn_reg[1];
    M.NRPN.valhi = IN.nrpn_reg[2]; M.NRPN.vallo = IN.nrpn_reg[3];
    M.slots = V_MALLOC(NS * sizeof(struct AutomationSlot));
    for(int i = 0; i < NS; i++) {
        struct AutomationSlot *s = &M.slots[i];
        s->active = IN.s_active[i] & 1; s->used = IN.s_used[i] & 1;
        s->learning = IN.learning[i]; s->midi_cc = IN.midi_cc[i]; s->midi_nrpn = IN.midi_nrpn[i];
        s->current_state = c19_f(IN.s_cur[i]);
        memset(s->name, 0, sizeof s->name);
        s->name[0] = 'S'; s->name[1] = (char)('1' + i);
        s->automations = V_MALLOC(PS * sizeof(struct Automation));
        for(int j = 0; j < PS; j++) {
            struct Automation *a = &s->automations[j];
            a->used = IN.a_used[i][j] & 1; a->active = IN.a_active[i][j] & 1; a->relative = IN.a_rel[i][j] & 1;
            a->param_base_value = c19_f(IN.a_base[i][j]);
            memset(a->param_path, 0, sizeof a->param_path);
            memcpy(a->param_path, C19_PATHS[i][j], 8);
            a->param_type = IN.a_type[i][j];
            a->param_min = c19_f(IN.a_min[i][j]); a->param_max = c19_f(IN.a_max[i][j]);
            a->param_step = c19_f(IN.a_step[i][j]);
            a->map.control_scale = IN.a_scale[i][j]; a->map.control_type = IN.a_ctype[i][j];
            a->map.npoints = NCP; a->map.upoints = IN.a_upoints[i][j];
            a->map.gain = c19_f(IN.a_gain[i][j]); a->map.offset = c19_f(IN.a_off[i][j]);
            a->map.control_points = V_MALLOC(NCP * sizeof(float));
            for(int c = 0; c < NCP; c++) a->map.control_points[c] = c19_f(IN.a_cp[i][j][c]);
        }
    }
}

/* queue-relevant state */
struct c19_q {
    int rank[NS], cc[NS], nrpn[NS], k;
    struct lq_nrpn reg;
    uint32_t cur[NS];
};

static void c19_snap(struct c19_q *q)
{
    for(int i = 0; i < NS; i++) {
        q->rank[i] = M.slots[i].learning; q->cc[i] = M.slots[i].midi_cc; q->nrpn[i] = M.slots[i].midi_nrpn;
        q->cur[i] = c19_u(M.slots[i].current_state);
    }
    q->k = M.learn_queue_len;
    q->reg.parhi = M.NRPN.parhi; q->reg.parlo = M.NRPN.parlo; q->reg.valhi = M.NRPN.valhi; q->reg.vallo = M.NRPN.vallo;
}

/* the inductive invariant: LQ and UNIQ (CC and NRPN) and NRPN_RANGE */
static bool c19_inv(const struct c19_q *q)
{
    return lq_inv(q->rank, CN, q->k) && lq_uniq(q->cc, CN) && lq_uniq(q->nrpn, CN)
        && lq_nrpn_reg_ok(q->reg.parhi) && lq_nrpn_reg_ok(q->reg.parlo)
        && lq_nrpn_reg_ok(q->reg.valhi) && lq_nrpn_reg_ok(q->reg.vallo);
}

static bool c19_same_queue(const struct c19_q *a, const struct c19_q *b)
{
    if(a->k != b->k) return false;
    for(int i = 0; i < NS; i++) if(a->rank[i] != b->rank[i]) return false;     /* also beyond nslots */
    return true;
}
static bool c19_same_bindings(const struct c19_q *a, const struct c19_q *b, int except)
{
    for(int i = 0; i < NS; i++)
        if(i != except && (a->cc[i] != b->cc[i] || a->nrpn[i] != b->nrpn[i])) return false;
    return true;
}
static bool c19_same_regs(const struct c19_q *a, const struct c19_q *b)
{
    return a->reg.parhi == b->reg.parhi && a->reg.parlo == b->reg.parlo && a->reg.valhi == b->reg.valhi
        && a->reg.vallo == b->reg.vallo;
}
static unsigned c19_msgs_of_slot(int i)
{
    unsigned n = 0;
    for(int j = 0; j < PS; j++) n += REC.per[i][j];
    return n;
}
/* messages slot i emits when it is driven once: one per used sub-automation of a known parameter type */
static unsigned c19_expected_msgs(int i)
{
    unsigned n = 0;
    if(i < 0 || i >= CN) return 0;
    for(int j = 0; j < PS; j++) {
        char t = IN.a_type[i][j];
        if(j < CPS && (IN.a_used[i][j] & 1) && (t == 'i' || t == 'f' || t == 'T' || t == 'F')) n++;
    }
    return n;
}
/* Case split over a slot (and sub) index: the call is made with a CONSTANT index on every listed path. Same meaning
 * as calling with the symbolic index, but memset/field accesses then have constant offsets (a symbolic offset of a
 * 128-byte memset into the slot array costs CBMC > 8 GB).
 *   C19_SPLIT*  : listed constants + the symbolic value on the default path  => every int is covered
 *   C19_SPLIT*C : listed constants only (all in-range values, and out of range: -1, the values up to 6 resp. 3,
 *                 INT_MIN, INT_MAX); other out-of-range ints are outside the explored domain (used for the two
 *                 methods that memset: clearSlot, clearSlotSub)                                               */
#include <limits.h>
#define C19_CASES_I(CALL) \
    case 0: { const int I = 0; CALL; } break; case 1: { const int I = 1; CALL; } break; \
    case 2: { const int I = 2; CALL; } break; case 3: { const int I = 3; CALL; } break; \
    case 4: { const int I = 4; CALL; } break; case 5: { const int I = 5; CALL; } break;
#define C19_CASES_J(CALL) \
    case 0: { const int J = 0; CALL; } break; case 1: { const int J = 1; CALL; } break; \
    case 2: { const int J = 2; CALL; } break;
#define C19_SPLIT1(i, CALL) do { switch(i) { C19_CASES_I(CALL) default: { const int I = (i); CALL; } } } while(0)
#define C19_SPLITJ(j, CALL) do { switch(j) { C19_CASES_J(CALL) default: { const int J = (j); CALL; } } } while(0)
#define C19_SPLIT1C(i, CALL) do { switch(i) { C19_CASES_I(CALL) \
    case -1: { const int I = -1; CALL; } break; case 6: { const int I = 6; CALL; } break; \
    case INT_MIN: { const int I = INT_MIN; CALL; } break; case INT_MAX: { const int I = INT_MAX; CALL; } break; \
    default: V_ASSUME(0); } } while(0)
#define C19_SPLITJC(j, CALL) do { switch(j) { C19_CASES_J(CALL) \
    case -1: { const int J = -1; CALL; } break; case 3: { const int J = 3; CALL; } break; \
    case INT_MIN: { const int J = INT_MIN; CALL; } break; case INT_MAX: { const int J = INT_MAX; CALL; } break; \
    default: V_ASSUME(0); } } while(0)
#define C19_SPLIT2(i, j, CALL)  C19_SPLIT1(i, C19_SPLITJ(j, CALL))
#define C19_SPLIT2C(i, j, CALL) C19_SPLIT1C(i, C19_SPLITJC(j, CALL))
#endif
