/* C19 - induction step over operations (learn queue + bindings).
 *
 * For every operation op of the property's history alphabet and EVERY state satisfying the invariant
 * INV = LQ && UNIQ && NRPN_RANGE (spec/lq_spec.h; all other fields unconstrained) and every argument:
 *     INV holds again after op, and the abstract transition is the one the statement demands.
 * Together with the base case (a freshly constructed manager: k = 0, all ranks/bindings -1) this decides the
 * claim for histories of every length.  Configuration space 1..6 slots x 1..3 sub-automations:
 *   -DSYMCFG -DNS=6 -DPS=3 : nslots and per_slot are symbolic inputs, ONE obligation covers the whole space (all tiers);
 *   -DNS=n -DPS=p          : exactly that configuration with exact-size heap objects (thorough tier, all 18).
 * Every loop - of the code, of the spec and of this harness - is bounded by nslots <= 6, per_slot <= 3 or LQ_MAXN,
 * so the unwinding (--unwind 8) is complete; the unwinding assertions are on and prove that.
 * setSlot is verified against its contract (h_setSlot); h_handleMidi is compiled with -DC19_REPLACE_setSlot and then
 * calls that contract instead of the body (thorough tier also runs it end to end, without the replacement).
 *
 * One entry point per operation; -DCASE_xxx restricts an entry to one case of the transition so that a failure
 * names the case (the oracle is the same for all cases). */
#include "c19_common.h"
#include "automations.h"        /* contracts/automations.h: setSlot contract (checked by h_setSlot, used by h_handleMidi) */
/* index arguments of the two-index methods: default = every in-range pair as a constant + the out-of-range
 * representatives (-1, 6 resp. 3, INT_MIN, INT_MAX); -DANY_INDEX = the symbolic value itself (every int) */
#undef C19_SPLIT2
#ifdef ANY_INDEX
#define C19_SPLIT2(i, j, CALL) do { const int I = (i), J = (j); CALL; } while(0)
#else
#define C19_SPLIT2(i, j, CALL) C19_SPLIT2C(i, j, CALL)
#endif

static struct c19_q pre, post;
static struct lq_view q0, q1;
static struct c19_deep d0, d1;        /* complete state before / after (contracts/automations.h) */

static void begin(void)
{
    c19_setup();
    c19_snap(&pre);
    c19_deep_snap(&d0);
    V_ASSUME(c19_inv(&pre));              /* induction hypothesis */
    q0 = lq_abstract(pre.rank, CN, pre.k);
}
static void end(void)
{
    c19_snap(&post);
    c19_deep_snap(&d1);
    V_ASSERT(c19_inv(&post), "C19 invariant LQ && UNIQ && NRPN_RANGE preserved");
    V_ASSERT(d1.nslots == d0.nslots && d1.per_slot == d0.per_slot && d1.slots == d0.slots && d1.backend == d0.backend,
             "C19 configuration of the manager (nslots, per_slot, slots, backend) unchanged");
#ifdef SYMCFG
    V_ASSERT(c19_beyond_untouched(&d0, &d1), "C19 slots beyond nslots / automations beyond per_slot are never written or addressed");
#endif
    q1 = lq_abstract(post.rank, CN, post.k);
    V_ASSERT(REC.n_foreign == 0, "C19 every message goes to the address of one of the manager's parameters");
    V_ASSERT(REC.emit_mismatch == 0, "C19 what is emitted is the message just built");
    V_ASSERT(REC.n_emit == (IN.has_backend ? REC.n_msg : 0), "C19 every built message is emitted once (if a backend is set)");
}
static bool in_range(int i) { return i >= 0 && i < CN; }

/* slot i was not driven: no message of its parameters, slot value untouched */
static bool not_driven(int i) { return c19_msgs_of_slot(i) == 0 && post.cur[i] == pre.cur[i]; }

/* -------------------------------------------------------------------------------------------- clearSlot(i) */
void h_clearSlot(void)
{
    begin();
    int i = IN.slot;
#if defined(CASE_WAITING)
    V_ASSUME(in_range(i) && pre.rank[i] > 0);
#elif defined(CASE_NOT_WAITING)
    V_ASSUME(!(in_range(i) && pre.rank[i] > 0));
#endif
    V_COVER(in_range(i) && pre.k >= 2 && pre.rank[i] != 1);
    V_COVER(in_range(i) && pre.k >= 1);
    if(in_range(i) && pre.rank[i] == -1 && pre.k >= 1) V_KF("clearSlot-not-waiting-while-others-wait");
    C19_SPLIT1C(i, AutomationMgr_clearSlot(&M, I));
    end();
    struct lq_view want = lq_remove(&q0, i);
    V_ASSERT(lq_view_eq(&q1, &want), "C19 clearSlot(i): queue' = queue without i, order of the others kept");
    V_ASSERT(c19_same_bindings(&pre, &post, in_range(i) ? i : -1), "C19 clearSlot(i): bindings of other slots unchanged");
    V_ASSERT(c19_same_regs(&pre, &post), "C19 clearSlot(i): NRPN registers unchanged");
    if(in_range(i))
        V_ASSERT(post.rank[i] == -1 && post.cc[i] == -1 && post.nrpn[i] == -1, "C19 clearSlot(i): slot i unbound and not waiting");
    for(int j = 0; j < NS; j++)
        if(j != i) V_ASSERT(not_driven(j), "C19 clearSlot(i): no other slot is driven");
    V_ASSERT(REC.n_msg == 0, "C19 clearSlot emits nothing");
}

/* ------------------------------------------------------------------------------- handleMidi(channel, cc, val) */
void h_handleMidi(void)
{
    begin();
    int ch = IN.channel, cc = IN.cc, val = IN.val;
    V_ASSUME(ch >= 0 && ch <= 15 && cc >= 0 && cc <= 127 && val >= 0 && val <= 127);     /* MIDI 1.0 domain */

    /* spec: which controller does this message identify, and who is bound to it */
    struct lq_nrpn reg1 = lq_is_nrpn_cc(cc) ? lq_nrpn_step(pre.reg, cc, val) : pre.reg;
    struct lq_ctl ctl = lq_controller(reg1, ch, cc);
    bool bound[NS]; bool any_bound = false;
    for(int i = 0; i < NS; i++) {
        bound[i] = i >= CN ? false : ctl.kind == LQ_CTL_CC ? pre.cc[i] == ctl.id : ctl.kind == LQ_CTL_NRPN ? pre.nrpn[i] == ctl.id : false;
        any_bound = any_bound || bound[i];
    }
#if defined(CASE_CC_BOUND)
    V_ASSUME(ctl.kind == LQ_CTL_CC && any_bound);
#elif defined(CASE_CC_UNBOUND)
    V_ASSUME(ctl.kind == LQ_CTL_CC && !any_bound);
#elif defined(CASE_NRPN_BOUND)
    V_ASSUME(ctl.kind == LQ_CTL_NRPN && any_bound);
#elif defined(CASE_NRPN_UNBOUND)
    V_ASSUME(ctl.kind == LQ_CTL_NRPN && !any_bound);
#elif defined(CASE_NRPN_INCOMPLETE)
    V_ASSUME(ctl.kind == LQ_CTL_NONE);
#endif
    V_COVER(ctl.kind == LQ_CTL_CC && any_bound);
    V_COVER(ctl.kind == LQ_CTL_NRPN && any_bound);
    V_COVER(ctl.kind == LQ_CTL_NRPN && !any_bound && q0.len >= 1);
    V_COVER(!any_bound && ctl.kind != LQ_CTL_NONE && q0.len >= 2 && q0.q[0] > q0.q[1]);
    V_COVER(!any_bound && ctl.kind != LQ_CTL_NONE && q0.len == 0);
    V_COVER(ctl.kind == LQ_CTL_NONE && q0.len >= 1);
    if(ctl.kind == LQ_CTL_NONE && q0.len >= 1) V_KF("handleMidi-incomplete-nrpn-while-waiting");

    AutomationMgr_handleMidi(&M, ch, cc, val);
    end();

    V_ASSERT(post.reg.parhi == reg1.parhi && post.reg.parlo == reg1.parlo && post.reg.valhi == reg1.valhi
             && post.reg.vallo == reg1.vallo, "C19 handleMidi: NRPN registers follow the MIDI NRPN protocol");
    if(ctl.kind == LQ_CTL_NONE || any_bound || q0.len == 0) {
        /* part of an NRPN sequence / a bound controller / nobody waiting: the queue and all bindings stay */
        V_ASSERT(c19_same_queue(&pre, &post), "C19 handleMidi: learn queue left alone (controller bound, not identified, or nobody waiting)");
        V_ASSERT(c19_same_bindings(&pre, &post, -1), "C19 handleMidi: bindings left alone (controller bound, not identified, or nobody waiting)");
        for(int i = 0; i < NS; i++) {
            if(bound[i]) {
                V_ASSERT(c19_msgs_of_slot(i) == c19_expected_msgs(i), "C19 handleMidi: a bound controller drives its slot (one message per used parameter)");
#ifndef NO_VALUE
                float want = ctl.kind == LQ_CTL_CC ? (float)(val / 127.0) : (float)((reg1.valhi * 128 + reg1.vallo) / 16383.0);
                V_ASSERT(post.cur[i] == c19_u(want), "C19 handleMidi: slot value = controller value scaled to 0..1");
#endif
            } else
                V_ASSERT(not_driven(i), "C19 handleMidi: a controller drives exactly its slot (others untouched)");
        }
    } else {
        /* unbound controller and somebody waiting: the one who asked first gets it */
        int h = q0.q[0];
        struct lq_view want = lq_pop(&q0);
        V_ASSERT(lq_view_eq(&q1, &want), "C19 handleMidi: unbound controller pops the head of the learn queue, order of the rest kept");
        V_ASSERT(c19_same_bindings(&pre, &post, h), "C19 handleMidi: learning leaves the bindings of other slots alone");
        if(ctl.kind == LQ_CTL_CC)
            V_ASSERT(post.cc[h] == ctl.id && post.nrpn[h] == pre.nrpn[h], "C19 handleMidi: head of the queue bound to exactly the CC that was moved");
        else
            V_ASSERT(post.nrpn[h] == ctl.id && post.cc[h] == pre.cc[h], "C19 handleMidi: head of the queue bound to exactly the NRPN that was moved");
        for(int i = 0; i < NS; i++)
            if(i != h) V_ASSERT(not_driven(i), "C19 handleMidi: learning drives no slot but the newly bound one");
    }
}

/* --------------------------------------------- enqueue(slot) = learn-queue tail of createBinding(slot, path, learn) */
void h_enqueue(void)
{
    begin();
    int s = IN.slot; bool learn = IN.learn & 1;
    V_ASSUME(in_range(s));          /* createBinding indexes slots[slot] unchecked: precondition of the real method */
    bool waiting = pre.rank[s] != -1, is_bound = pre.cc[s] != -1 || pre.nrpn[s] != -1;
    V_COVER(learn && !waiting && !is_bound && pre.k >= 1);
    V_COVER(learn && waiting);
    C19_SPLIT1C(s, AutomationMgr_createBinding_tail(&M, I, C19_PATHS[0][0], learn));
    end();
    struct lq_view app = lq_append(&q0, s);
    if(!learn || waiting)
        V_ASSERT(lq_view_eq(&q1, &q0), "C19 enqueue: no learn request, or already waiting => queue unchanged (keeps its place)");
    else if(!is_bound)
        V_ASSERT(lq_view_eq(&q1, &app), "C19 enqueue: an unbound slot asking for learn is appended at the end of the queue");
    else
        V_ASSERT(lq_view_eq(&q1, &q0) || lq_view_eq(&q1, &app), "C19 enqueue: an already bound slot is appended or ignored");
    V_ASSERT(c19_same_bindings(&pre, &post, -1) && c19_same_regs(&pre, &post), "C19 enqueue: bindings and NRPN registers unchanged");
    for(int i = 0; i < NS; i++) V_ASSERT(not_driven(i), "C19 enqueue drives no slot");
}

/* ------------------------------------------------------------------ operations that must not touch the queue */
static void frame_common(void)
{
    end();
    V_ASSERT(c19_same_queue(&pre, &post), "C19 frame: learning ranks and learn_queue_len untouched");
    V_ASSERT(c19_same_bindings(&pre, &post, -1), "C19 frame: midi_cc / midi_nrpn untouched");
    V_ASSERT(c19_same_regs(&pre, &post), "C19 frame: NRPN registers untouched");
}

void h_setSlot(void)           /* setSlot(i, v) against its contract (contracts/automations.h): drives exactly slot i */
{
    begin();
#ifdef FIXED_SLOT
    V_COVER(IN.slot == FIXED_SLOT && c19_expected_msgs(FIXED_SLOT) == (unsigned)CPS && IN.has_backend);
#endif
#ifdef FIXED_SLOT               /* one obligation per in-range slot index (constant: cheap symbolic execution) */
    V_ASSUME(IN.slot == FIXED_SLOT);
    AutomationMgr_setSlot(&M, FIXED_SLOT, c19_f(IN.f));
#else                           /* out-of-range representatives */
    switch(IN.slot) {
    case -1: AutomationMgr_setSlot(&M, -1, c19_f(IN.f)); break;
    case NS: AutomationMgr_setSlot(&M, NS, c19_f(IN.f)); break;
    case INT_MIN: AutomationMgr_setSlot(&M, INT_MIN, c19_f(IN.f)); break;
    case INT_MAX: AutomationMgr_setSlot(&M, INT_MAX, c19_f(IN.f)); break;
    default: V_ASSUME(0);
    }
#endif
    frame_common();
    c19_check_setSlot_contract(&d0, &d1, IN.slot, IN.f);
    for(int i = 0; i < NS; i++)
        if(i != IN.slot) V_ASSERT(not_driven(i), "C19 setSlot(i,v): no other slot driven");
}

void h_setSlotSub(void)
{
    begin();
    V_COVER(in_range(IN.slot) && IN.sub >= 0 && IN.sub < CPS && (IN.a_used[IN.slot][IN.sub] & 1) && IN.a_type[IN.slot][IN.sub] == 'T');
    C19_SPLIT2(IN.slot, IN.sub, AutomationMgr_setSlotSub(&M, I, J, c19_f(IN.f)));
    frame_common();
    for(int i = 0; i < NS; i++) {
        V_ASSERT(post.cur[i] == pre.cur[i], "C19 setSlotSub: slot values untouched");
        for(int j = 0; j < PS; j++)
            if(!(i == IN.slot && j == IN.sub)) V_ASSERT(REC.per[i][j] == 0, "C19 setSlotSub(i,j,v): no message for any other parameter");
    }
    V_ASSERT(REC.n_msg <= 1, "C19 setSlotSub: at most one message");
}

#define FRAME_NO_MSG(NAME, CALL) \
void NAME(void) { \
    begin(); V_COVER(in_range(IN.slot) && IN.sub >= 0 && IN.sub < CPS); \
    CALL; \
    frame_common(); \
    for(int i = 0; i < NS; i++) V_ASSERT(not_driven(i), "C19 frame: no slot driven"); \
}
FRAME_NO_MSG(h_updateMapping,    C19_SPLIT2(IN.slot, IN.sub, AutomationMgr_updateMapping(&M, I, J)))
FRAME_NO_MSG(h_clearSlotSub,     C19_SPLIT2C(IN.slot, IN.sub, AutomationMgr_clearSlotSub(&M, I, J)))
FRAME_NO_MSG(h_setSlotSubGain,   C19_SPLIT2(IN.slot, IN.sub, AutomationMgr_setSlotSubGain(&M, I, J, c19_f(IN.f))))
FRAME_NO_MSG(h_setSlotSubOffset, C19_SPLIT2(IN.slot, IN.sub, AutomationMgr_setSlotSubOffset(&M, I, J, c19_f(IN.f))))
