// C19 - base case of the induction over operations, decided by EXHAUSTIVE NATIVE EXECUTION of the real constructor
// (it uses new[]/snprintf and is out of CBMC's reach; it is deterministic in (slots, per_slot, control_points), so
// running it for every point of the configuration space 1..6 x 1..3 decides the base case):
//     a freshly constructed AutomationMgr satisfies INV = LQ && UNIQ && NRPN_RANGE (spec/lq_spec.h), i.e.
//     learn_queue_len == 0, every slot: learning == midi_cc == midi_nrpn == -1, NRPN registers -1 or 7 bit,
//     and every automation is unused with the default gain 100 / offset 0.
// The object is constructed in storage that was filled with a byte pattern before, so a member the constructor
// forgets shows up (two patterns: 0x01 -> positive garbage, 0xA5 -> negative garbage).
// Built by props/C19.py static_checks() from $VERIF_REPO:  g++ base_case.cpp src/cpp/automations.cpp (only the
// constructor/destructor are linked: -ffunction-sections -Wl,--gc-sections). Exit 0 = base case holds, 1 = not.
#define private public          /* test-only access to AutomationMgr::NRPN; layout is unchanged */
#include <rtosc/automations.h>
#undef private
#include <cstdio>
#include <cstring>
#include <new>
#define LQ_MAXN 6
extern "C++" {
#include "lq_spec.h"
}

int main()
{
    int bad = 0;
    const unsigned char patterns[2] = {0x01, 0xA5};
    for(int pi = 0; pi < 2; ++pi)
    for(int n = 1; n <= 6; ++n)
    for(int p = 1; p <= 3; ++p) {
        alignas(rtosc::AutomationMgr) static unsigned char store[sizeof(rtosc::AutomationMgr)];
        memset(store, patterns[pi], sizeof store);
        rtosc::AutomationMgr *m = new(store) rtosc::AutomationMgr(n, p, 4);
        int rank[6], cc[6], nrpn[6];
        bool ok = m->nslots == n && m->per_slot == p;
        for(int i = 0; i < n; ++i) {
            rank[i] = m->slots[i].learning; cc[i] = m->slots[i].midi_cc; nrpn[i] = m->slots[i].midi_nrpn;
            ok = ok && rank[i] == -1 && cc[i] == -1 && nrpn[i] == -1;
            for(int j = 0; j < p; ++j) {
                const rtosc::Automation &a = m->slots[i].automations[j];
                ok = ok && !a.used && a.map.gain == 100.0f && a.map.offset == 0.0f && a.map.npoints == 4;
            }
        }
        bool lq = ok && m->learn_queue_len == 0 && lq_inv(rank, n, m->learn_queue_len) && lq_uniq(cc, n) && lq_uniq(nrpn, n);
        bool regs = lq_nrpn_reg_ok(m->NRPN.parhi) && lq_nrpn_reg_ok(m->NRPN.parlo)
                 && lq_nrpn_reg_ok(m->NRPN.valhi) && lq_nrpn_reg_ok(m->NRPN.vallo);
        if(!lq) { printf("BASE-FAIL nslots=%d per_slot=%d fill=%#x: LQ/UNIQ/unbound does not hold after construction\n", n, p, patterns[pi]); bad++; }
        if(!regs) {
            if(n == 1 && p == 1)
                printf("BASE-FAIL fill=%#x: NRPN registers not initialised by the constructor: parhi=%#x parlo=%#x valhi=%#x vallo=%#x "
                       "(NRPN_RANGE wants -1 or 0..127)\n", patterns[pi], m->NRPN.parhi, m->NRPN.parlo, m->NRPN.valhi, m->NRPN.vallo);
            bad++;
        }
        m->~AutomationMgr();
    }
    printf("base case: %d of %d (configuration, fill) checks failed\n", bad, 2 * 18 * 2);
    return bad ? 1 : 0;
}
