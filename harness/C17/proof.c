/* C17 proof-mode harnesses (any block length <= 2^16): the contracts of contracts/meta.h are enforced on the
 * mechanically extracted text with the loop contracts of contracts/meta.loops injected; metaiterator_advance is
 * replaced by its contract inside operator++ and the constructors. The harness only provides the block object
 * and leaves every ghost offset unconstrained (the contracts' requires clauses constrain them). */
#include "verif.h"
#include META_TYPES
#include "meta.h"
const char *M_BLK; size_t M_LEN, M_KO, M_KE, M_VE, M_T, A_KE; int M_HASVAL;
#ifndef C17_FORALL
size_t M_G;
#endif
#include META_ITER_INC
#include META_CONT_INC

static char *mk_block(void)
{
    size_t n;
    __CPROVER_assume(n >= 1 && n <= M_MAXLEN);
    char *b = malloc(n);
    M_BLK = b; M_LEN = n;
    return b;
}

void h_advance(void)
{
    char *b = mk_block();
    size_t o; bool null_title;
    __CPROVER_assume(o < M_LEN);
    const char *title = null_title ? NULL : b + o, *value;
    metaiterator_advance(&title, &value);
    V_COVER(value != NULL);
    V_COVER(!null_title && value == NULL);
}

void h_inc(void)
{
    char *b = mk_block();
    size_t o;
    __CPROVER_assume(o < M_LEN);
    struct MetaIterator it; it.title = b + o;
    MetaIterator_inc(&it);
    V_COVER(it.title != NULL && it.value != NULL && M_HASVAL && M_VE > M_KE + 3);
    V_COVER(it.title == NULL);
}

void h_length(void)
{
    char *b = mk_block();
    struct MetaContainer mc; mc.str_ptr = b + 1;
    size_t r = MetaContainer_length(&mc);
    V_COVER(r > 10);
}

/* loop-free given the contract of metaiterator_advance: Port::meta() strips the leading ':', begin() starts at the first
 * key (and would strip a second ':' - excluded by wf: a key does not start with ':'), end() is the null iterator */
#ifdef C17_FORALL
void h_begin_end(void)
{
    char *b = mk_block();
    __CPROVER_assume(A_KEY_WF(1) && b[0] == ':' && b[1] != ':');
    struct Port port = { "x", b, NULL, NULL };
    struct MetaContainer mc = Port_meta(&port);
    __CPROVER_assert(mc.str_ptr == b + 1, "C17 Port::meta() strips exactly the leading ':'");
    struct MetaIterator it = MetaContainer_begin(&mc);
    __CPROVER_assert(it.title == b + 1, "C17 begin() is at the first key");
    __CPROVER_assert(it.value == (b[A_KE + 1] == '=' ? b + A_KE + 2 : NULL), "C17 begin(): value of the first entry, NULL if it has none");
    struct MetaContainer raw = MetaContainer_make(b);
    struct MetaIterator it2 = MetaContainer_begin(&raw);
    __CPROVER_assert(it2.title == b + 1 && it2.value == it.value, "C17 begin() of a container built from the metadata pointer itself strips the ':'");
    struct MetaIterator e = MetaContainer_end(&mc);
    __CPROVER_assert(e.title == NULL && e.value == NULL && !MetaIterator_bool(&e) && MetaIterator_bool(&it), "C17 end() is the null iterator");
    struct Port nometa = { "x", NULL, NULL, NULL };
    struct MetaContainer mn = Port_meta(&nometa);
    struct MetaIterator bn = MetaContainer_begin(&mn);
    __CPROVER_assert(mn.str_ptr == NULL && bn.title == NULL && MetaContainer_length(&mn) == 0, "C17 a port without metadata has an empty container");
    V_COVER(it.value != NULL);
}
#else
void h_begin_end(void)
{
    char *b = mk_block();
    __CPROVER_assume(A_WF(b + 1) && b[0] == ':' && b[1] != ':' && b[1] != 0);
    struct Port port = { "x", b, NULL, NULL };
    struct MetaContainer mc = Port_meta(&port);
    __CPROVER_assert(mc.str_ptr == b + 1, "C17 Port::meta() strips exactly the leading ':'");
    struct MetaIterator it = MetaContainer_begin(&mc);
    __CPROVER_assert(it.title == b + 1, "C17 begin() is at the first key");
    if(it.value != NULL) {
        size_t vo = (size_t)(it.value - b);
        __CPROVER_assert(__CPROVER_same_object(it.value, b) && vo >= 3 && vo <= A_KE + 2, "C17 begin(): a value lies behind the first key, inside the block");
        __CPROVER_assert(b[vo - 1] == '=' && b[vo - 2] == 0, "C17 begin(): a value follows a NUL and an '='");
        __CPROVER_assert(M_G < 1 || M_G >= vo - 2 || b[M_G] != 0, "C17 begin(): that NUL is the first one behind the key start (arbitrary offset M_G before it is not NUL)");
    }
    struct MetaContainer raw = MetaContainer_make(b);
    struct MetaIterator it2 = MetaContainer_begin(&raw);
    __CPROVER_assert(it2.title == b + 1, "C17 begin() of a container built from the metadata pointer itself strips the ':'");
    struct MetaIterator e = MetaContainer_end(&mc);
    __CPROVER_assert(e.title == NULL && e.value == NULL && !MetaIterator_bool(&e) && MetaIterator_bool(&it), "C17 end() is the null iterator");
    struct Port nometa = { "x", NULL, NULL, NULL };
    struct MetaContainer mn = Port_meta(&nometa);
    struct MetaIterator bn = MetaContainer_begin(&mn);
    __CPROVER_assert(mn.str_ptr == NULL && bn.title == NULL && MetaContainer_length(&mn) == 0, "C17 a port without metadata has an empty container");
    V_COVER(it.value != NULL);
}
#endif

#ifdef C17_FORALL
/* Non-vacuity of the quantified requires clauses: they HOLD for a concrete example block (constant bounds, so the SAT back end
 * expands the quantifiers; the quantified obligations themselves cannot carry a canary because SMT solvers answer `unknown`
 * when asked for a model of a quantified formula). */
void h_forall_example(void)
{
    static const char ex[] = ":ab\0=c:\0:d\0";               /* entries: ["ab" = "c:"] ["d"] ; 11 bytes + implicit NUL = 12 */
    char *b = malloc(sizeof(ex));
    for(size_t i = 0; i < sizeof(ex); i++) b[i] = ex[i];
    M_BLK = b; M_LEN = sizeof(ex);
    M_KO = 1; M_KE = 3; M_HASVAL = 1; M_VE = 7; A_KE = 10; M_T = 11;
    __CPROVER_assert(M_ENTRY_WF && M_ENTRY_NO_NUL, "C17 example block satisfies the entry requires of the quantified operator++ contract");
    __CPROVER_assert(M_BLK[M_E + 1] == ':' && A_KEY_WF(M_E + 2), "C17 example block satisfies the next-key requires");
    __CPROVER_assert(__CPROVER_forall { size_t qi; (2 <= qi && qi < M_T) ==> (M_BLK[qi - 1] != 0 || M_BLK[qi] != 0) }
                     && M_BLK[M_T] == 0 && M_BLK[M_T - 1] == 0 && M_LEN == M_T + 1, "C17 example block satisfies the requires of the quantified length() contract");
    struct MetaIterator it; it.title = b + 1; it.value = b + 5;
    MetaIterator_inc(&it);
    __CPROVER_assert(it.title == b + 9 && it.value == NULL, "C17 example: operator++ lands on the second entry");
}
#endif
