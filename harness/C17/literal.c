/* C17 literal check: the byte strings that the REAL macros rMap/rProp/rDoc/rOptions of include/rtosc/port-sugar.h
 * produce (expanded by g++ on this run into C17_literals.h, see props/C17.py) are well-formed blocks, denote exactly the
 * pairs the macro arguments name, and the real reader decodes them to those pairs. Everything is constant: loop-free for
 * the verifier after constant propagation.   -DLIT=<name of the literal> */
#include "verif.h"
#include "meta_spec.h"
#include META_TYPES
#include META_ITER_INC
#include META_CONT_INC
#include "C17_literals.h"

#define CAT_(a, b) a##b
#define CAT(a, b) CAT_(a, b)
#define L_BYTES CAT(LIT_, LIT)
#define L_LEN   CAT(CAT(LIT_, LIT), _LEN)
#define L_K     CAT(CAT(LIT_, LIT), _K)
#define L_KEYS  CAT(CAT(LIT_, LIT), _KEYS)
#define L_VALS  CAT(CAT(LIT_, LIT), _VALS)

struct c17_lit_in { unsigned char unused; };
V_INPUT(c17_lit_in)

void h_literal(void)
{
    in_init();
    /* ---- what the macro arguments name, as a ghost view */
    struct meta_view view;
    V_ASSERT(spec_view_of_pairs(L_KEYS, L_VALS, L_K, &view), "C17 literal: pairs fit the view");
    V_ASSERT(view.len == L_LEN, "C17 literal: sizeof(macro text) == length of the block the pairs denote (including the terminator)");
    V_ASSERT(wf_block(L_BYTES, L_LEN, &view), "C17 literal: the macro-produced bytes are a well-formed block with exactly that view");
    for(int j = 0; j < L_K; j++) {
        V_ASSERT(ms_streq((const char *)L_BYTES + view.key_off[j], L_KEYS[j]), "C17 literal: key j of the block is the key the macro names");
        V_ASSERT(L_VALS[j] ? (view.val_off[j] >= 0 && ms_streq((const char *)L_BYTES + view.val_off[j], L_VALS[j])) : view.val_off[j] < 0,
                 "C17 literal: value j of the block is the value the macro names (none for rProp)");
    }

    /* ---- the real reader on an exact-size copy */
    unsigned char *blk = V_MALLOC(L_LEN);
    for(int i = 0; i < L_LEN; i++) blk[i] = L_BYTES[i];
    struct Port port = { "x", (const char *)blk, NULL, NULL };
    struct MetaContainer mc = Port_meta(&port);
    struct MetaIterator it = MetaContainer_begin(&mc), end = MetaContainer_end(&mc);
    for(int j = 0; j < L_K; j++) {
        V_ASSERT(it.title != end.title, "C17 literal: iteration reaches entry j");
        V_ASSERT(it.title == (const char *)blk + view.key_off[j] && ms_streq(it.title, L_KEYS[j]), "C17 literal: iteration yields key j");
        V_ASSERT(L_VALS[j] ? (it.value == (const char *)blk + view.val_off[j] && ms_streq(it.value, L_VALS[j])) : it.value == NULL,
                 "C17 literal: iteration yields value j");
        MetaIterator_inc(&it);
    }
    V_ASSERT(it.title == end.title, "C17 literal: iteration ends after the last entry");
    V_ASSERT(MetaContainer_length(&mc) == (size_t)L_LEN, "C17 literal: length() == sizeof of the macro text");
    for(int j = 0; j < L_K; j++) {
        int vo = spec_lookup(blk, &view, L_KEYS[j]);
        V_ASSERT(MetaContainer_index(&mc, L_KEYS[j]) == (vo < 0 ? NULL : (const char *)blk + vo), "C17 literal: operator[] of a named key");
        struct MetaIterator f = MetaContainer_find(&mc, L_KEYS[j]);
        V_ASSERT(MetaIterator_bool(&f) && f.title == (const char *)blk + view.key_off[spec_first(blk, &view, L_KEYS[j])], "C17 literal: find of a named key");
    }
    V_ASSERT(MetaContainer_index(&mc, "no such key") == NULL, "C17 literal: operator[] of an absent key");
    struct MetaIterator nf = MetaContainer_find(&mc, "no such key");
    V_ASSERT(!MetaIterator_bool(&nf), "C17 literal: find of an absent key");
    V_COVER(L_K >= 1);
}
