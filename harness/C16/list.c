/* C16, bounded: argument lists with range blocks against their expansion, a re-compression and a third list.
 * The SHAPE of a list is fixed per obligation by props/C16.py (-DLS_BLOCKS): a sequence of blocks
 *      { type, rep, has_delta }     rep == 0: one plain value;  rep >= 1: a range block of rep values
 * (types c i h with or without delta, T F without delta -- rtosc never builds a boolean range with delta).
 * Inside a shape every start value and every delta is symbolic (precondition: start + j*delta does not leave the
 * type, property/DESIGN: "no int overflow").  Built from the same inputs:
 *      E   the expansion, plain values only            (and SE, the same list as specification values)
 *      C   the compressed list: '-'{rep,has_delta} [delta] start   per range block (representation read from
 *          arg-val-itr.c / arg-ext.c / pretty-format.c:insert_arg_range)
 *      C2  a re-compression: every range block of k >= 2 values becomes  first value, range of k-1 values;
 *          a range of one value becomes a plain value and a plain value a range of one value
 *      X   a third, plain list of 0..NE+1 values (length symbolic, values symbolic; type pattern = E's types,
 *          rotated by LS_XROT, one extra value at the end)
 *   h_list_eq     eq == 1 / cmp == 0 between C, E and C2 in both directions
 *   h_list_cmp    against X the sign is identical for E, C, C2 and equal to spec_sign_list (lexicographic over the
 *                 EXPANSION), antisymmetric, eq <=> sign 0     (two entries: one run of both took 5x as long)
 *   h_list_itr    rtosc_arg_val_itr_get/_next over C yields exactly E and consumes exactly C's slots
 *   h_list_avmsg  rtosc_avmessage(C) and rtosc_avmessage(E) are byte-identical (and not the error value 0)      */
#include "c16_common.h"

struct blk { char type; int rep; int has_delta; };
static const struct blk SH[] = { LS_BLOCKS {0, 0, 0} };
#ifndef LS_XROT
#define LS_XROT 0
#endif
#define MAXB 4         /* blocks per shape */
#define MAXE 4         /* expanded values per shape */

struct in_c16l {
    uint64_t v[MAXB], d[MAXB];        /* start value / delta bit patterns per block */
    uint64_t x[MAXE + 1];             /* third list */
    uint8_t  nx;
    struct c16_junk j;                /* bytes of the union that the designated member does not cover */
    uint8_t  k;                       /* ghost index */
};
V_INPUT(in_c16l)

static int is_num(char t) { return t == 'c' || t == 'i' || t == 'h'; }

/* j-th value of block b as a number (types c i h), exact */
static int64_t blk_value(int b, int j)
{
    if(SH[b].type == 'h') return (int64_t)((uint64_t)IN.v[b] + (uint64_t)j * (SH[b].has_delta ? IN.d[b] : 0));
    return (int32_t)((uint32_t)IN.v[b] + (uint32_t)j * (SH[b].has_delta ? (uint32_t)IN.d[b] : 0u));
}
/* input-domain precondition: the arithmetic range stays inside its type */
static int blk_in_domain(int b)
{
    if(!SH[b].has_delta) return 1;
    for(int j = 1; j < SH[b].rep; j++) {
        if(SH[b].type == 'h') {
            __int128 e = (__int128)(int64_t)IN.v[b] + (__int128)j * (int64_t)IN.d[b];
            if(e < INT64_MIN || e > INT64_MAX) return 0;
        } else {
            int64_t e = (int64_t)(int32_t)IN.v[b] + (int64_t)j * (int32_t)IN.d[b];
            if(e < INT32_MIN || e > INT32_MAX) return 0;
        }
    }
    return 1;
}
static uint64_t num_bits(char t, int64_t n) { return t == 'h' ? (uint64_t)n : (uint64_t)(uint32_t)(int32_t)n; }

static void mk_plain(char t, uint64_t bits, rtosc_arg_val_t *dst, struct cs_val *sv)
{
    rtosc_arg_val_t tmp; struct cs_val s;
    c16_mk_scalar(t, bits, &IN.j, &tmp, &s);
    *dst = tmp;
    if(sv) *sv = s;
}
static void mk_range_hdr(int rep, int has_delta, rtosc_arg_val_t *dst)
{
    rtosc_arg_val_t tmp;
    tmp.val.h = 0;                       /* the packed {num, has_delta} occupies exactly these 8 bytes */
    tmp.type = '-';
    rtosc_av_rep_num_set(&tmp, rep);
    rtosc_av_rep_has_delta_set(&tmp, has_delta);
    *dst = tmp;
}
/* one range block (rep values from `first`, delta from block b) or plain value into dst; returns slots written */
static int emit_block(rtosc_arg_val_t *dst, int b, int as_range, int rep, int first)
{
    char t = SH[b].type;
    uint64_t startbits = is_num(t) ? num_bits(t, blk_value(b, first)) : 0;
    int n = 0;
    if(as_range) {
        int hd = SH[b].has_delta;
        mk_range_hdr(rep, hd, &dst[n++]);
        if(hd) mk_plain(t, num_bits(t, t == 'h' ? (int64_t)IN.d[b] : (int64_t)(int32_t)IN.d[b]), &dst[n++], NULL);
    }
    mk_plain(t, startbits, &dst[n++], NULL);
    return n;
}

#define NSLOT (3 * MAXB + MAXE)
static rtosc_arg_val_t gE[MAXE + 1], gC[NSLOT], gC2[NSLOT], X[MAXE + 1];
static struct cs_val SE[MAXE + 1], SX[MAXE + 1];
static int NE, NC, NC2;

static void build(void)
{
    NE = NC = NC2 = 0;
    for(int b = 0; SH[b].type; b++) {
        V_ASSUME(blk_in_domain(b));
        char t = SH[b].type;
        int cnt = SH[b].rep ? SH[b].rep : 1;
        for(int j = 0; j < cnt; j++) {               /* expansion */
            mk_plain(t, is_num(t) ? num_bits(t, blk_value(b, j)) : 0, &gE[NE], &SE[NE]);
            NE++;
        }
        NC += emit_block(&gC[NC], b, SH[b].rep != 0, SH[b].rep, 0);
        if(SH[b].rep >= 2) {                        /* re-compression */
            NC2 += emit_block(&gC2[NC2], b, 0, 0, 0);
            NC2 += emit_block(&gC2[NC2], b, 1, SH[b].rep - 1, 1);
        } else
            NC2 += emit_block(&gC2[NC2], b, SH[b].rep == 0, 1, 0);
    }
}

/* exact-size copy of a built list (n is a constant after build()): reading a slot past the list is a pointer
 * failure under CBMC and an ASan trap natively */
#define EXACT(name, src, n) rtosc_arg_val_t name[(n) ? (n) : 1]; for(int q_ = 0; q_ < (n); q_++) name[q_] = src[q_]

static void build_x(void)
{
    for(int k = 0; k <= NE; k++) {
        char t = NE ? SE[(k + LS_XROT) % NE].type : 'i';
        mk_plain(t, IN.x[k], &X[k], &SX[k]);
    }
}

#ifdef H_LIST_EQ
void h_list_eq(void)
{
    in_init();
    build();
    EXACT(E, gE, NE); EXACT(C, gC, NC); EXACT(C2, gC2, NC2);
    V_COVER(NE > 0);

    /* compressed, expanded and re-compressed forms are equal */
    V_ASSERT(rtosc_arg_vals_eq(C, E, NC, NE, NULL) == 1,   "C16 compressed list eq its expansion");
    V_ASSERT(rtosc_arg_vals_eq(E, C, NE, NC, NULL) == 1,   "C16 expansion eq compressed list");
    V_ASSERT(rtosc_arg_vals_cmp(C, E, NC, NE, NULL) == 0,  "C16 cmp(compressed, expansion) == 0");
    V_ASSERT(rtosc_arg_vals_cmp(E, C, NE, NC, NULL) == 0,  "C16 cmp(expansion, compressed) == 0");
    V_ASSERT(rtosc_arg_vals_eq(C, C2, NC, NC2, NULL) == 1, "C16 compressed list eq its re-compression");
    V_ASSERT(rtosc_arg_vals_eq(C2, C, NC2, NC, NULL) == 1, "C16 re-compression eq compressed list");
    V_ASSERT(rtosc_arg_vals_cmp(C, C2, NC, NC2, NULL) == 0, "C16 cmp(compressed, re-compression) == 0");
    V_ASSERT(rtosc_arg_vals_cmp(C2, C, NC2, NC, NULL) == 0, "C16 cmp(re-compression, compressed) == 0");
}
#endif

#ifdef H_LIST_CMP
void h_list_cmp(void)
{
    in_init();
    build();
    build_x();
    int nx = IN.nx;
    V_ASSUME(nx <= NE + 1);
    EXACT(E, gE, NE); EXACT(C, gC, NC); EXACT(C2, gC2, NC2);

    /* against a third list: same sign whichever form is used, and it is the order of the expansions */
    int s = spec_sign_list(SE, NE, SX, nx);
    V_COVER(s < 0 && nx == NE); V_COVER(s == 0); V_COVER(s > 0 && nx > 0); V_COVER(s < 0 && nx == NE + 1);
    int ex = rtosc_arg_vals_cmp(E, X, NE, nx, NULL);
    int cx = rtosc_arg_vals_cmp(C, X, NC, nx, NULL);
    int c2x = rtosc_arg_vals_cmp(C2, X, NC2, nx, NULL);
    int xc = rtosc_arg_vals_cmp(X, C, nx, NC, NULL);
    V_ASSERT(cs_sgn(ex) == s,  "C16 sign(cmp(expansion, X)) == spec_sign_list");
    V_ASSERT(cs_sgn(cx) == s,  "C16 sign(cmp(compressed, X)) == spec_sign_list of the expansion");
    V_ASSERT(cs_sgn(c2x) == s, "C16 sign(cmp(re-compressed, X)) == spec_sign_list of the expansion");
    V_ASSERT(cs_sgn(xc) == -s, "C16 sign(cmp(X, compressed)) == -spec_sign_list (antisymmetric)");
    V_ASSERT(rtosc_arg_vals_eq(E, X, NE, nx, NULL) == (s == 0), "C16 eq(expansion, X) == (spec_sign_list == 0)");
    V_ASSERT(rtosc_arg_vals_eq(C, X, NC, nx, NULL) == (s == 0), "C16 eq(compressed, X) == (spec_sign_list == 0)");
    V_ASSERT(rtosc_arg_vals_eq(X, C2, nx, NC2, NULL) == (s == 0), "C16 eq(X, re-compressed) == (spec_sign_list == 0)");
}
#endif

static void same_value(const rtosc_arg_val_t *got, const struct cs_val *want)
{
    V_ASSERT(got->type == want->type, "C16 iteration yields the type of the expanded value");
    if(want->type == 'h') V_ASSERT(got->val.h == want->num, "C16 iteration yields the expanded value (h)");
    if(want->type == 'i' || want->type == 'c') V_ASSERT(got->val.i == want->num, "C16 iteration yields the expanded value (i c)");
    if(want->type == 'T') V_ASSERT(got->val.T == 1, "C16 iteration yields the expanded value (T)");
    if(want->type == 'F') V_ASSERT(got->val.T == 0, "C16 iteration yields the expanded value (F)");
}

#ifdef H_LIST_ITR
void h_list_itr(void)
{
    in_init();
    build();
    EXACT(C, gC, NC);
    rtosc_arg_val_itr it;
    rtosc_arg_val_t buf;
    rtosc_arg_val_itr_init(&it, C);
    int k = 0;
    for(; it.i < (size_t)NC; k++) {
        V_ASSERT(k < NE, "C16 iteration yields no more values than the expansion has");
        const rtosc_arg_val_t *got = rtosc_arg_val_itr_get(&it, &buf);
        same_value(got, &SE[k]);
        rtosc_arg_val_itr_next(&it);
    }
    V_COVER(k == NE && NE > 0);
    V_ASSERT(k == NE, "C16 iteration yields exactly as many values as the expansion has");
    V_ASSERT(it.i == (size_t)NC, "C16 iteration consumes exactly the slots of the compressed list");
}
#endif

#ifdef H_LIST_AVMSG
#define MSGCAP 48
void h_list_avmsg(void)
{
    in_init();
    build();
    EXACT(E, gE, NE); EXACT(C, gC, NC);
    char *bc = V_MALLOC(MSGCAP), *be = V_MALLOC(MSGCAP);
    size_t rc = rtosc_avmessage(bc, MSGCAP, "/p", NC, C);
    size_t re = rtosc_avmessage(be, MSGCAP, "/p", NE, E);
    V_COVER(re > 8);
    V_ASSERT(re != 0 && re <= MSGCAP, "C16 harness: the expansion's message fits");
    V_ASSERT(rc == re, "C16 avmessage(compressed) has the length of avmessage(expansion)");
    for(size_t k = 0; k < MSGCAP; k++)
        if(k < re) V_ASSERT(bc[k] == be[k], "C16 avmessage(compressed) is byte-identical to avmessage(expansion)");
    V_ASSERT(rtosc_avmessage(NULL, 0, "/p", NC, C) == re, "C16 avmessage sizing call agrees for the compressed list");
}
#endif
