/* C16, bounded: arrays ('a' values) of 0..2 elements, element types fixed per obligation, all nine length pairs and all
 * element payloads (symbolic) per obligation; array storage is an exact-size object (header + len elements).
 *   -DC16_LT / -DC16_RT : element type of the left / right array (char code). For 'T' and 'F' (boolean arrays) the
 *                         ELEMENTS are T or F independently ("T/F mixed"): the mix runs over all combinations in a
 *                         constant loop, so that every type the code switches on is concrete (a symbolic type makes
 *                         the code's switch reach the array case and the eq/cmp recursion).
 *   strings inside arrays: 0..C16_ESTR (1) non-NUL bytes; blobs inside arrays: 0..1 bytes.
 * Checked: sign(cmp_single) == spec_sign and eq_single == (spec_sign == 0), both directions; the same through the
 * list functions (a list holding just that array); the code's own results obey antisymmetry / 0 iff equal;
 * and the laws of the SPEC on a triple of arrays (h_spec_laws_array).                                               */
#include "c16_common.h"
#define AMAX 2
#ifndef C16_ESTR
#define C16_ESTR 1
#endif

struct in_c16a {
    uint64_t lb[AMAX], rb[AMAX], xb[AMAX];           /* element payload bit patterns */
    uint8_t  lsc[AMAX][C16_ESTR], rsc[AMAX][C16_ESTR]; /* string / blob element content */
    int8_t   lsl[AMAX], rsl[AMAX];                     /* string / blob element lengths */
    struct c16_junk lj[AMAX + 1], rj[AMAX + 1];
    uint8_t  ln, rn, xn;                               /* array lengths */
    uint8_t  lat, rat, xat;                            /* spec laws: array type indices */
    uint8_t  xet[3][AMAX];                             /* spec laws: boolean element types */
};
V_INPUT(in_c16a)

static int is_bool(char t) { return t == 'T' || t == 'F'; }

/* element k of an array with element type `et`; for boolean arrays the element is T when bit k of `mix` is set */
static void mk_elem(char et, unsigned mix, int k, uint64_t bits, const uint8_t *content, int slen,
                    const struct c16_junk *junk, rtosc_arg_val_t *av, struct cs_val *sv)
{
    if(is_bool(et))
        c16_mk_scalar(((mix >> k) & 1u) ? 'T' : 'F', bits, junk, av, sv);
    else if(et == 's' || et == 'S')
        c16_mk_string(et, slen, content, junk, av, sv, C16_ESTR);
    else if(et == 'b')
        c16_mk_blob(slen, content, junk, av, sv, C16_ESTR);
    else
        c16_mk_scalar(et, bits, junk, av, sv);
}

static void check_pair(const rtosc_arg_val_t *l, const rtosc_arg_val_t *r, int ln, int rn,
                       const struct cs_val *sl, const struct cs_val *sr)
{
    int s  = spec_sign(sl, sr);
    int s2 = spec_sign(sr, sl);
    int c  = rtosc_arg_vals_cmp_single(l, r, NULL);
    int e  = rtosc_arg_vals_eq_single(l, r, NULL);
    int c2 = rtosc_arg_vals_cmp_single(r, l, NULL);
    int e2 = rtosc_arg_vals_eq_single(r, l, NULL);
    V_COVER(s < 0 && ln == 2 && rn == 2); V_COVER(s == 0 && ln == 2); V_COVER(s > 0 && ln == 1 && rn == 2);
    V_COVER(s < 0 && ln == 0);
    if(s != 0 && ln == 0 && rn == 0) V_KF("c16_empty_arrays_of_different_type");
    V_ASSERT(cs_sgn(c) == s,  "C16 sign(cmp_single(l,r)) == spec_sign(l,r)");
    V_ASSERT(cs_sgn(c2) == s2, "C16 sign(cmp_single(r,l)) == spec_sign(r,l)");
    V_ASSERT(e == (s == 0),   "C16 eq_single(l,r) == (spec_sign(l,r) == 0)");
    V_ASSERT(e2 == (s2 == 0), "C16 eq_single(r,l) == (spec_sign(r,l) == 0)");
    V_ASSERT((c == 0) == (e != 0), "C16 cmp_single returns 0 exactly when eq_single reports equal");
    V_ASSERT(spec_law_antisym(c, c2), "C16 cmp_single is antisymmetric");
    /* a list that holds just this array (the iterator must step over the array's elements) */
    int lc = rtosc_arg_vals_cmp(l, r, 1 + (size_t)ln, 1 + (size_t)rn, NULL);
    int le = rtosc_arg_vals_eq(l, r, 1 + (size_t)ln, 1 + (size_t)rn, NULL);
    V_ASSERT(cs_sgn(lc) == s, "C16 sign(cmp([l],[r])) == spec_sign(l,r)");
    V_ASSERT(le == (s == 0),  "C16 eq([l],[r]) == (spec_sign(l,r) == 0)");
}

#ifdef H_ARRAY
#define LBOOL (C16_LT == 'T' || C16_LT == 'F')
#define RBOOL (C16_RT == 'T' || C16_RT == 'F')
void h_array(void)
{
    in_init();
    for(int k = 0; k < AMAX; k++) {
        V_ASSUME(IN.lsl[k] >= 0 && IN.lsl[k] <= C16_ESTR && IN.rsl[k] >= 0 && IN.rsl[k] <= C16_ESTR);
        for(int j = 0; j < C16_ESTR; j++)
            V_ASSUME((C16_LT == 'b' || IN.lsc[k][j] != 0) && (C16_RT == 'b' || IN.rsc[k][j] != 0));
        V_ASSUME(c16_scalar_in_domain(C16_LT, IN.lb[k]) && c16_scalar_in_domain(C16_RT, IN.rb[k]));
    }
    /* lengths 0..2 x 0..2 and (boolean arrays) every T/F mix of the elements run in CONSTANT loops: with a symbolic
     * length the type of an element slot is symbolic (element or not), the code's switch(type) then reaches the
     * array case and with it the eq/cmp recursion (no result in 100 s); payloads stay symbolic */
#ifdef C16_LN      /* obligation split only (boolean x boolean arrays, 49 T/F mixes: symex time grows faster than
                    * linearly with the number of iterations): lengths fixed per obligation */
    for(int ln = C16_LN; ln <= C16_LN; ln++)
    for(int rn = C16_RN; rn <= C16_RN; rn++)
#else
    for(int ln = 0; ln <= AMAX; ln++)
    for(int rn = 0; rn <= AMAX; rn++)
#endif
#ifdef C16_LMIX_LO  /* obligation split only: the left T/F mixes C16_LMIX_LO .. C16_LMIX_HI */
    for(unsigned lmix = C16_LMIX_LO; lmix <= C16_LMIX_HI; lmix++)
#else
    for(unsigned lmix = 0; lmix < (LBOOL ? (1u << ln) : 1u); lmix++)
#endif
    for(unsigned rmix = 0; rmix < (RBOOL ? (1u << rn) : 1u); rmix++) {
        /* exact-size objects (ln, rn are constants here; a malloc'ed byte object would lose the constant types) */
        rtosc_arg_val_t L[1 + ln], R[1 + rn];
        struct cs_val sl, sr, sle[AMAX], sre[AMAX];
        /* every value is built in a temporary and then assigned as a struct: a memcpy (union junk) straight into
         * the array would turn the whole array into a byte-update term and lose the constant type fields */
        rtosc_arg_val_t tmp;
        c16_mk_arrhdr(C16_LT, ln, &IN.lj[AMAX], &tmp); L[0] = tmp;
        c16_mk_arrhdr(C16_RT, rn, &IN.rj[AMAX], &tmp); R[0] = tmp;
        for(int k = 0; k < ln; k++) {
            mk_elem(C16_LT, lmix, k, IN.lb[k], IN.lsc[k], IN.lsl[k], &IN.lj[k], &tmp, &sle[k]); L[1 + k] = tmp;
        }
        for(int k = 0; k < rn; k++) {
            mk_elem(C16_RT, rmix, k, IN.rb[k], IN.rsc[k], IN.rsl[k], &IN.rj[k], &tmp, &sre[k]); R[1 + k] = tmp;
        }
        c16_cs_clear(&sl, 'a'); sl.atype = C16_LT; sl.alen = ln; sl.elems = sle;
        c16_cs_clear(&sr, 'a'); sr.atype = C16_RT; sr.alen = rn; sr.elems = sre;
        check_pair(L, R, ln, rn, &sl, &sr);
    }
}
#endif

#ifdef H_SPEC_LAWS_ARRAY
/* laws of the specification on three arrays: element types from {F,T,I,N,S(empty strings),i,h}; boolean arrays with
 * mixed T/F elements; 0..2 elements; numeric payloads symbolic */
static const char ATYPES[7] = { 'F', 'T', 'I', 'N', 'S', 'i', 'h' };
static void mk_spec_arr(struct cs_val *a, struct cs_val *e, uint8_t ti, uint8_t n, const uint64_t *bits, const uint8_t *et)
{
    char t = ATYPES[ti];
    for(int k = 0; k < AMAX; k++) {
        c16_cs_clear(&e[k], is_bool(t) ? ((et[k] & 1) ? 'T' : 'F') : t);
        if(t == 'i') e[k].num = (int32_t)(uint32_t)bits[k];
        if(t == 'h') e[k].num = (int64_t)bits[k];
    }
    c16_cs_clear(a, 'a'); a->atype = t; a->alen = n; a->elems = e;
}
void h_spec_laws_array(void)
{
    in_init();
    V_ASSUME(IN.lat < 7 && IN.rat < 7 && IN.xat < 7 && IN.ln <= AMAX && IN.rn <= AMAX && IN.xn <= AMAX);
    struct cs_val a, b, c, ae[AMAX], be[AMAX], ce[AMAX];
    mk_spec_arr(&a, ae, IN.lat, IN.ln, IN.lb, IN.xet[0]);
    mk_spec_arr(&b, be, IN.rat, IN.rn, IN.rb, IN.xet[1]);
    mk_spec_arr(&c, ce, IN.xat, IN.xn, IN.xb, IN.xet[2]);
    int ab = spec_sign(&a, &b), ba = spec_sign(&b, &a), bc = spec_sign(&b, &c), ac = spec_sign(&a, &c);
    V_COVER(ab > 0 && bc < 0 && a.atype == 'F' && b.atype == 'S' && c.atype == 'T');
    V_COVER(ab == 0 && bc == 0 && a.atype == 'F' && b.atype == 'T' && IN.ln == 2);
    V_ASSERT(spec_sign(&a, &a) == 0, "spec_sign is reflexive (arrays)");
    V_ASSERT(ab == -ba, "spec_sign is antisymmetric (arrays)");
    V_ASSERT(spec_law_trans(ab, bc, ac), "spec_sign is transitive (arrays)");
}
#endif
