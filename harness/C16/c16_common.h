/* C16 harness support: the real code (verbatim includes of the working-tree files) + builders that
 * create, from the same inputs, (1) rtosc's representation and (2) the specification's value.  */
#ifndef C16_COMMON_H
#define C16_COMMON_H
#include "verif.h"
#include <rtosc/rtosc.h>
#include <rtosc/arg-ext.h>
#include <rtosc/arg-val.h>
#include <rtosc/arg-val-itr.h>
#include <rtosc/arg-val-math.h>
#include <rtosc/arg-val-cmp.h>
#include "cmp_spec.h"

/* the code under verification: the files themselves, from $VERIF_REPO */
#include C16_ARG_EXT_C
#include C16_ARGVAL_MATH_C
#include C16_ARGVAL_ITR_C
#include C16_ARGVAL_CMP_C
#ifdef C16_WITH_AVMESSAGE
#include C16_UTIL_C
#include C16_ARGVAL_C
#include C16_RTOSC_C
#endif

static const char C16_SCALAR_TAGS[12] = { 'i','c','r','h','t','f','d','m','T','F','N','I' };

/* rtosc_arg_t is a union: every byte that the designated member does not cover is arbitrary (`junk`) */
struct c16_junk { uint8_t b[sizeof(rtosc_arg_t)]; };

static inline int c16_is_nan32(uint32_t u) { return (u & 0x7f800000u) == 0x7f800000u && (u & 0x007fffffu) != 0; }
static inline int c16_is_nan64(uint64_t u) { return (u & 0x7ff0000000000000ull) == 0x7ff0000000000000ull && (u & 0x000fffffffffffffull) != 0; }

/* in-domain: "numbers" excludes NaN */
static inline int c16_scalar_in_domain(char tag, uint64_t bits)
{
    if(tag == 'f') return !c16_is_nan32((uint32_t)bits);
    if(tag == 'd') return !c16_is_nan64(bits);
    return 1;
}

static inline void c16_cs_clear(struct cs_val *sv, char tag)
{
    sv->type = tag; sv->num = 0; sv->real = 0.0; sv->tt = 0; sv->m[0] = sv->m[1] = sv->m[2] = sv->m[3] = 0;
    sv->bytes = NULL; sv->len = 0; sv->atype = 0; sv->alen = 0; sv->elems = NULL;
}

/* a scalar of type `tag` with payload bit pattern `bits`: rtosc value (through the member the tag designates)
 * and specification value */
static inline void c16_mk_scalar(char tag, uint64_t bits, const struct c16_junk *junk,
                                 rtosc_arg_val_t *av, struct cs_val *sv)
{
    memcpy(&av->val, junk->b, sizeof(av->val));
    av->type = tag;
    c16_cs_clear(sv, tag);
    switch(tag) {
        case 'i': case 'c': case 'r':
            av->val.i = (int32_t)(uint32_t)bits; sv->num = (int32_t)(uint32_t)bits; break;
        case 'h':
            av->val.h = (int64_t)bits; sv->num = (int64_t)bits; break;
        case 't':
            av->val.t = bits; sv->tt = bits; break;
        case 'f':
            av->val.f = v_bits_f((uint32_t)bits); sv->real = (double)v_bits_f((uint32_t)bits); break;
        case 'd':
            av->val.d = v_bits_d(bits); sv->real = v_bits_d(bits); break;
        case 'm':
            for(int k = 0; k < 4; k++) { av->val.m[k] = (uint8_t)(bits >> (8*k)); sv->m[k] = (uint8_t)(bits >> (8*k)); }
            break;
        case 'T': av->val.T = 1; break;
        case 'F': av->val.T = 0; break;
        default: break;              /* N I: no value */
    }
}

/* string of `len` (0..) content bytes in an exact-size heap object, or the NULL string (len < 0) */
static inline void c16_mk_string(char tag, int len, const uint8_t *content, const struct c16_junk *junk,
                                 rtosc_arg_val_t *av, struct cs_val *sv, int maxlen)
{
    memcpy(&av->val, junk->b, sizeof(av->val));
    av->type = tag;
    c16_cs_clear(sv, tag);
    if(len < 0) { av->val.s = NULL; sv->len = -1; return; }
    char *p = V_MALLOC((size_t)len + 1);
    for(int k = 0; k < maxlen; k++) if(k < len) p[k] = (char)content[k];
    p[len] = 0;
    av->val.s = p;
    sv->bytes = content; sv->len = len;
}

/* blob of `len` bytes in an exact-size heap object */
static inline void c16_mk_blob(int len, const uint8_t *content, const struct c16_junk *junk,
                               rtosc_arg_val_t *av, struct cs_val *sv, int maxlen)
{
    memcpy(&av->val, junk->b, sizeof(av->val));
    av->type = 'b';
    c16_cs_clear(sv, 'b');
    uint8_t *p = V_MALLOC((size_t)len);
    for(int k = 0; k < maxlen; k++) if(k < len) p[k] = content[k];
    av->val.b.len = len;
    av->val.b.data = p;
    sv->bytes = content; sv->len = len;
}

/* array header through the public setters. The 8 bytes the header is packed into start as zero (the padding
 * bytes 1..3 are then concrete: with arbitrary padding CBMC no longer sees a constant length after the setters'
 * union round trip, the element loop bound becomes symbolic and the run does not finish); bytes 8..15 arbitrary */
static inline void c16_mk_arrhdr(char etype, int len, const struct c16_junk *junk, rtosc_arg_val_t *av)
{
    memcpy(&av->val, junk->b, sizeof(av->val));
    av->val.h = 0;
    av->type = 'a';
    rtosc_av_arr_type_set(av, etype);
    rtosc_av_arr_len_set(av, len);
}
#endif
