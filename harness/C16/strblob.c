/* C16, bounded: strings (s S) and blobs (b) of at most C16_MAXLEN (3) bytes, full byte alphabet, every object
 * exact-size on the heap (a read past the terminator / past len is a pointer failure under CBMC, an ASan trap
 * natively).
 *   h_string  (-DC16_TAG = 's' or 'S'; -DC16_LLEN/-DC16_RLEN = 0..3; without them the lengths are symbolic in
 *             0..C16_MAXLEN): content bytes symbolic and non-NUL.
 *   h_string_null  NULL string against NULL / any string (see there).
 *   h_blob    (-DC16_LLEN/-DC16_RLEN = 0..3; without them symbolic in 0..C16_MAXLEN): content bytes symbolic.
 *   both: sign(cmp_single) == spec_sign, eq_single == (spec_sign == 0), both directions, the code's own results obey
 *   the laws on the pair; plus the laws of the SPEC on a triple (third value: symbolic length).                   */
#include "c16_common.h"
#ifndef C16_MAXLEN
#define C16_MAXLEN 3
#endif

struct in_c16b {
    uint8_t lc[C16_MAXLEN], rc[C16_MAXLEN], xc[C16_MAXLEN];    /* content */
    int8_t  llen, rlen, xlen;
    struct c16_junk lj, rj, xj;
};
V_INPUT(in_c16b)

static void check_pair(const rtosc_arg_val_t *l, const rtosc_arg_val_t *r,
                       const struct cs_val *sl, const struct cs_val *sr)
{
    int s  = spec_sign(sl, sr);
    int s2 = spec_sign(sr, sl);
    int c  = rtosc_arg_vals_cmp_single(l, r, NULL);
    int e  = rtosc_arg_vals_eq_single(l, r, NULL);
    int c2 = rtosc_arg_vals_cmp_single(r, l, NULL);
    int e2 = rtosc_arg_vals_eq_single(r, l, NULL);
    V_COVER(s < 0); V_COVER(s == 0); V_COVER(s > 0);
    V_COVER(s != 0 && sl->len > 0 && sr->len > sl->len && sl->bytes[0] == sr->bytes[0]);
    V_ASSERT(cs_sgn(c) == s,  "C16 sign(cmp_single(l,r)) == spec_sign(l,r)");
    V_ASSERT(cs_sgn(c2) == s2, "C16 sign(cmp_single(r,l)) == spec_sign(r,l)");
    V_ASSERT(e == (s == 0),   "C16 eq_single(l,r) == (spec_sign(l,r) == 0)");
    V_ASSERT(e2 == (s2 == 0), "C16 eq_single(r,l) == (spec_sign(r,l) == 0)");
    V_ASSERT((c == 0) == (e != 0), "C16 cmp_single returns 0 exactly when eq_single reports equal");
    V_ASSERT(spec_law_antisym(c, c2), "C16 cmp_single is antisymmetric");
    V_ASSERT(rtosc_arg_vals_cmp_single(l, l, NULL) == 0 && rtosc_arg_vals_eq_single(l, l, NULL) == 1,
             "C16 cmp_single / eq_single are reflexive");
}

static void spec_laws(const struct cs_val *a, const struct cs_val *b, const struct cs_val *c)
{
    int ab = spec_sign(a, b), ba = spec_sign(b, a), bc = spec_sign(b, c), ac = spec_sign(a, c);
    V_ASSERT(spec_sign(a, a) == 0, "spec_sign is reflexive");
    V_ASSERT(ab == -ba, "spec_sign is antisymmetric");
    V_ASSERT(spec_law_trans(ab, bc, ac), "spec_sign is transitive (incl. transitivity of equality)");
}

#ifdef H_STRING
void h_string(void)
{
    in_init();
#ifdef C16_LLEN
    const int llen = C16_LLEN, rlen = C16_RLEN;
#else
    int llen = IN.llen, rlen = IN.rlen;
    V_ASSUME(llen >= 0 && llen <= C16_MAXLEN && rlen >= 0 && rlen <= C16_MAXLEN);
#endif
    int xlen = IN.xlen;
    V_ASSUME(xlen >= -1 && xlen <= C16_MAXLEN);
    for(int k = 0; k < C16_MAXLEN; k++) V_ASSUME(IN.lc[k] != 0 && IN.rc[k] != 0 && IN.xc[k] != 0);
    rtosc_arg_val_t l, r;
    struct cs_val sl, sr, sx;
    c16_mk_string(C16_TAG, llen, IN.lc, &IN.lj, &l, &sl, C16_MAXLEN);
    c16_mk_string(C16_TAG, rlen, IN.rc, &IN.rj, &r, &sr, C16_MAXLEN);
    check_pair(&l, &r, &sl, &sr);
    c16_cs_clear(&sx, C16_TAG); sx.len = xlen; sx.bytes = xlen < 0 ? NULL : IN.xc;
    spec_laws(&sl, &sr, &sx);
}
#endif

#ifdef H_STRING_NULL
/* NULL strings "as the code defines them". NULL vs NULL: equal. NULL vs non-NULL: eq_single is checked; cmp_single
 * then compares the two POINTERS with `>` -- a relational comparison of a null pointer, undefined in ISO C
 * (6.5.8p5) and without a model in CBMC (it reports "pointer relation: pointer NULL"), so its result is not
 * checked here: supporting fact, natively NULL sorts first (findings/c16_null_string.c). */
void h_string_null(void)
{
    in_init();
    int rlen = IN.rlen;
    V_ASSUME(rlen >= -1 && rlen <= C16_MAXLEN);
    for(int k = 0; k < C16_MAXLEN; k++) V_ASSUME(IN.rc[k] != 0);
    rtosc_arg_val_t l, r;
    struct cs_val sl, sr;
    c16_mk_string(C16_TAG, -1, IN.lc, &IN.lj, &l, &sl, C16_MAXLEN);
    c16_mk_string(C16_TAG, rlen, IN.rc, &IN.rj, &r, &sr, C16_MAXLEN);
    int s = spec_sign(&sl, &sr);
    V_COVER(s == 0); V_COVER(s < 0);
    V_ASSERT(s == (rlen < 0 ? 0 : -1) && spec_sign(&sr, &sl) == -s, "spec: NULL string first, equal to itself (self-check)");
    V_ASSERT(rtosc_arg_vals_eq_single(&l, &r, NULL) == (s == 0), "C16 eq_single(NULL string, r) == (spec_sign == 0)");
    V_ASSERT(rtosc_arg_vals_eq_single(&r, &l, NULL) == (s == 0), "C16 eq_single(r, NULL string) == (spec_sign == 0)");
    if(rlen < 0)
        V_ASSERT(rtosc_arg_vals_cmp_single(&l, &r, NULL) == 0, "C16 cmp_single(NULL string, NULL string) == 0");
#ifdef H_NULL_CMP_NONZERO
    /* "returns 0 exactly when the equality test reports equal" also for NULL against a real string. Only != 0 is
     * asserted, not the sign: the code orders the two POINTERS here (no model for that in CBMC, hence this variant is
     * run with the pointer checks off; natively NULL sorts first). */
    if(rlen >= 0) {
        V_ASSERT(rtosc_arg_vals_cmp_single(&l, &r, NULL) != 0, "C16 cmp_single(NULL string, string) != 0 as eq_single says they differ");
        V_ASSERT(rtosc_arg_vals_cmp_single(&r, &l, NULL) != 0, "C16 cmp_single(string, NULL string) != 0 as eq_single says they differ");
    }
#endif
}
#endif

#ifdef H_BLOB
void h_blob(void)
{
    in_init();
#ifdef C16_LLEN
    const int llen = C16_LLEN, rlen = C16_RLEN;
#else
    int llen = IN.llen, rlen = IN.rlen;
    V_ASSUME(llen >= 0 && llen <= C16_MAXLEN && rlen >= 0 && rlen <= C16_MAXLEN);
#ifdef C16_BLOB_SAMELEN
    V_ASSUME(llen == rlen);        /* obligation split only: .samelen + .difflen together are all length pairs */
#endif
#ifdef C16_BLOB_DIFFLEN
    V_ASSUME(llen != rlen);
#endif
#endif
    int xlen = IN.xlen;
    V_ASSUME(xlen >= 0 && xlen <= C16_MAXLEN);
    rtosc_arg_val_t l, r;
    struct cs_val sl, sr, sx;
    c16_mk_blob(llen, IN.lc, &IN.lj, &l, &sl, C16_MAXLEN);
    c16_mk_blob(rlen, IN.rc, &IN.rj, &r, &sr, C16_MAXLEN);
    {   /* tag for known-findings.txt: one blob is the other one extended by a zero byte (+ anything) */
        int minl = llen < rlen ? llen : rlen;
        if(llen != rlen && cs_bytes_sign(IN.lc, minl, IN.rc, minl) == 0 && (llen < rlen ? IN.rc[minl] : IN.lc[minl]) == 0)
            V_KF("c16_blob_zero_extended_prefix");
    }
    check_pair(&l, &r, &sl, &sr);
    c16_cs_clear(&sx, 'b'); sx.len = xlen; sx.bytes = IN.xc;
    spec_laws(&sl, &sr, &sx);
}
#endif
