/* C16, bounded: delta-less range blocks whose repeated value is an ARRAY ("AR_REP x [e1 .. eN]";
 * pretty-format.c:insert_arg_range builds these) against their expansion and a third list.
 * Shape per obligation (props/C16.py):
 *   -DAR_REP  1..3   rep_num of the range block
 *   -DAR_LEN  0..2   number of array elements
 *   -DAR_ET   element type of the array: 'i' / 'h' (payloads symbolic) or 'T' (boolean array, elements T/F as the
 *                    bits of -DAR_MIX say: bit k set = element k is T)
 *   -DAR_PRE / -DAR_POST  0/1: a plain 'i' value before / after the block (iteration has to enter and leave the block)
 * Lists (every list is an EXACT-SIZE HEAP OBJECT, sizes are compile-time constants of the shape, so a read outside
 * a list is a pointer failure under CBMC and a heap-buffer-overflow under ASan; reads outside the iterator's
 * one-slot value buffer inside rtosc_arg_vals_eq/_cmp are caught the same way):
 *   C  = [pre] '-'{AR_REP, no delta} 'a'{AR_ET, AR_LEN} e1..eN [post]
 *   E  = [pre] AR_REP x ( 'a'{AR_ET, AR_LEN} e1..eN ) [post]                       (SE: the specification's values)
 *   X  = [pre'] KX x ( 'a'{AR_ET, AR_LEN} x1..xN ) [post'], KX = AR_REP-1, AR_REP, AR_REP+1 (constant loop), own
 *        symbolic payloads: a third list that can be shorter, longer, equal, smaller or larger
 *   h_ar_eq   eq(C,E) == 1, cmp(C,E) == 0 both ways   (-DAR_ONECALL: only eq(C,E))
 *   h_ar_cmp  against X: sign(cmp(C,X)) == sign(cmp(E,X)) == spec_sign_list of the EXPANSIONS, antisymmetric,
 *             eq <=> sign 0   (-DAR_KX_LO/-DAR_KX_HI restrict KX: obligation split)
 *   h_ar_itr  rtosc_arg_val_itr_get/_next over C yields the expansion -- array header AND the elements behind the
 *             returned pointer -- and consumes exactly C's slots
 * Recursion of the real code is cut at depth 3 with --unwindset (props/C16.py): list -> array -> element needs 2.
 * If an element type ever becomes arbitrary (a read outside an object), the run then still ends -- with the pointer
 * failure -- instead of unwinding eq_single <-> eq without end.                                                  */
#include "c16_common.h"

#ifndef AR_MIX
#define AR_MIX 0
#endif
#define AR_BOOL (AR_ET == 'T' || AR_ET == 'F')
#define ASLOTS  (1 + AR_LEN)                              /* slots of one array value */
#define NC      (AR_PRE + 2 + AR_LEN + AR_POST)           /* slots of the compressed list */
#define NE      (AR_PRE + AR_REP * ASLOTS + AR_POST)      /* slots of the expansion */
#define NV      (AR_PRE + AR_REP + AR_POST)               /* values the expansion has */
#define KXMAX   (AR_REP + 1)
#define NXMAX   (AR_PRE + KXMAX * ASLOTS + AR_POST)
#define EL      (AR_LEN ? AR_LEN : 1)

struct in_c16r {
    uint64_t e[EL];                 /* payloads of the repeated array's elements */
    uint64_t x[KXMAX][EL];          /* third list: payloads per array */
    uint64_t pre, post, xpre, xpost;
    struct c16_junk j;
};
V_INPUT(in_c16r)

static void put_scalar(rtosc_arg_val_t *dst, struct cs_val *sv, char t, uint64_t bits)
{
    rtosc_arg_val_t tmp; struct cs_val s;                 /* temp + struct assignment: see array.c */
    c16_mk_scalar(t, bits, &IN.j, &tmp, &s);
    *dst = tmp;
    if(sv) *sv = s;
}
static char elem_type(int k) { return AR_BOOL ? (((AR_MIX >> k) & 1) ? 'T' : 'F') : AR_ET; }

/* one array value (header + elements) at dst; specification value at sv with elements in se */
static int put_array(rtosc_arg_val_t *dst, struct cs_val *sv, struct cs_val *se, const uint64_t *payload)
{
    rtosc_arg_val_t tmp;
    c16_mk_arrhdr(AR_ET, AR_LEN, &IN.j, &tmp);
    dst[0] = tmp;
    for(int k = 0; k < AR_LEN; k++)
        put_scalar(&dst[1 + k], se ? &se[k] : NULL, elem_type(k), payload[k]);
    if(sv) { c16_cs_clear(sv, 'a'); sv->atype = AR_ET; sv->alen = AR_LEN; sv->elems = se; }
    return ASLOTS;
}

static rtosc_arg_val_t *C, *E;
static struct cs_val SE[NV ? NV : 1], SEe[EL];

static void build(void)
{
    C = V_MALLOC(sizeof(rtosc_arg_val_t) * NC);
    E = V_MALLOC(sizeof(rtosc_arg_val_t) * NE);
    int c = 0, e = 0, v = 0;
    if(AR_PRE) { put_scalar(&C[c++], NULL, 'i', IN.pre); put_scalar(&E[e++], &SE[v++], 'i', IN.pre); }
    {
        rtosc_arg_val_t tmp;
        tmp.val.h = 0; tmp.type = '-';
        rtosc_av_rep_num_set(&tmp, AR_REP);
        rtosc_av_rep_has_delta_set(&tmp, 0);
        C[c++] = tmp;
    }
    c += put_array(&C[c], NULL, NULL, IN.e);
    for(int r = 0; r < AR_REP; r++)
        e += put_array(&E[e], &SE[v++], SEe, IN.e);
    if(AR_POST) { put_scalar(&C[c++], NULL, 'i', IN.post); put_scalar(&E[e++], &SE[v++], 'i', IN.post); }
    V_ASSERT(c == NC && e == NE && v == NV, "harness: slot counts (self-check)");
}

#ifdef H_AR_EQ
void h_ar_eq(void)
{
    in_init();
    for(int k = 0; k < EL; k++) V_ASSUME(c16_scalar_in_domain(AR_ET, IN.e[k]));
    build();
    V_COVER(NV > 0);
    V_ASSERT(rtosc_arg_vals_eq(C, E, NC, NE, NULL) == 1,  "C16 'N x [array]' eq its expansion");
#ifdef AR_ONECALL   /* the smallest obligation of the family: ONE call of the real code. If a read outside an object
                     * makes element types arbitrary, this one still ends (with the pointer failure inside rtosc's
                     * code), where the runs with many calls exhaust time or memory. */
    return;
#endif
    V_ASSERT(rtosc_arg_vals_eq(E, C, NE, NC, NULL) == 1,  "C16 expansion eq 'N x [array]'");
    V_ASSERT(rtosc_arg_vals_cmp(C, E, NC, NE, NULL) == 0, "C16 cmp('N x [array]', expansion) == 0");
    V_ASSERT(rtosc_arg_vals_cmp(E, C, NE, NC, NULL) == 0, "C16 cmp(expansion, 'N x [array]') == 0");
}
#endif

#ifdef H_AR_CMP
#ifndef AR_KX_LO            /* obligation split: number of arrays in the third list */
#define AR_KX_LO (AR_REP - 1)
#define AR_KX_HI KXMAX
#endif
void h_ar_cmp(void)
{
    in_init();
    for(int k = 0; k < EL; k++) V_ASSUME(c16_scalar_in_domain(AR_ET, IN.e[k]));
    build();
    for(int kx = AR_KX_LO; kx <= AR_KX_HI; kx++) {
        const int nx = AR_PRE + kx * ASLOTS + AR_POST, nxv = AR_PRE + kx + AR_POST;
        rtosc_arg_val_t *X = V_MALLOC(sizeof(rtosc_arg_val_t) * nx);
        struct cs_val SX[AR_PRE + KXMAX + AR_POST], SXe[KXMAX][EL];
        int x = 0, v = 0;
        if(AR_PRE) put_scalar(&X[x++], &SX[v++], 'i', IN.xpre);
        for(int r = 0; r < kx; r++)
            x += put_array(&X[x], &SX[v++], SXe[r], IN.x[r]);
        if(AR_POST) put_scalar(&X[x++], &SX[v++], 'i', IN.xpost);
        int s = spec_sign_list(SE, NV, SX, nxv);
        V_COVER(s < 0); V_COVER(s == 0); V_COVER(s > 0);
        int cx = rtosc_arg_vals_cmp(C, X, NC, nx, NULL), ex = rtosc_arg_vals_cmp(E, X, NE, nx, NULL),
            xc = rtosc_arg_vals_cmp(X, C, nx, NC, NULL);
        V_ASSERT(cs_sgn(ex) == s,  "C16 sign(cmp(expansion, X)) == spec_sign_list");
        V_ASSERT(cs_sgn(cx) == s,  "C16 sign(cmp('N x [array]', X)) == spec_sign_list of the expansion");
        V_ASSERT(cs_sgn(xc) == -s, "C16 sign(cmp(X, 'N x [array]')) == -spec_sign_list (antisymmetric)");
        V_ASSERT(rtosc_arg_vals_eq(C, X, NC, nx, NULL) == (s == 0), "C16 eq('N x [array]', X) == (spec_sign_list == 0)");
        V_ASSERT(rtosc_arg_vals_eq(X, C, nx, NC, NULL) == (s == 0), "C16 eq(X, 'N x [array]') == (spec_sign_list == 0)");
    }
}
#endif

#ifdef H_AR_ITR
void h_ar_itr(void)
{
    in_init();
    build();
    rtosc_arg_val_itr it;
    rtosc_arg_val_t buf;
    rtosc_arg_val_itr_init(&it, C);
    int k = 0, e = 0;                       /* value index, slot index in the expansion */
    for(; it.i < (size_t)NC; k++) {
        V_ASSERT(k < NV, "C16 iteration yields no more values than the expansion has");
        const rtosc_arg_val_t *got = rtosc_arg_val_itr_get(&it, &buf);
        V_ASSERT(got->type == E[e].type, "C16 iteration yields the type of the expanded value");
        if(E[e].type == 'a') {
            V_COVER(k == NV - 1 - AR_POST);
            V_ASSERT(rtosc_av_arr_type(got) == AR_ET && rtosc_av_arr_len(got) == AR_LEN, "C16 iteration yields the array header");
            for(int q = 1; q <= AR_LEN; q++) {       /* the elements are read where eq/cmp read them: behind the value */
                V_ASSERT(got[q].type == E[e + q].type, "C16 iteration yields the array's element types");
                if(AR_ET == 'h') V_ASSERT(got[q].val.h == E[e + q].val.h, "C16 iteration yields the array's elements (h)");
                if(AR_ET == 'i') V_ASSERT(got[q].val.i == E[e + q].val.i, "C16 iteration yields the array's elements (i)");
            }
            e += ASLOTS;
        } else {
            V_ASSERT(got->val.i == E[e].val.i, "C16 iteration yields the plain value");
            e += 1;
        }
        rtosc_arg_val_itr_next(&it);
    }
    V_ASSERT(k == NV && e == NE, "C16 iteration yields exactly the values of the expansion");
    V_ASSERT(it.i == (size_t)NC, "C16 iteration consumes exactly the slots of the compressed list");
}
#endif
