/* C16, loop-free full-domain obligations for scalars (mode "proof": every bit pattern, no unwinding needed).
 *   h_scalar        (-DC16_TAG=<char code>): both values of type C16_TAG, all payload bit patterns (f d: no NaN):
 *                   sign(rtosc_arg_vals_cmp_single) == spec_sign, rtosc_arg_vals_eq_single == (spec_sign == 0),
 *                   with opt == NULL and with the default options object; the code's results obey the laws.
 *   h_scalar_mixed  (-DC16_TAG) left value of type C16_TAG, right value of any OTHER scalar type: ordered by type
 *                   character, not equal.
 *   h_spec_laws     reflexive / antisymmetric / transitive for spec_sign on three scalars of any tags.       */
#include "c16_common.h"

struct in_c16s {
    uint64_t lb, rb, cb;           /* payload bit patterns */
    struct c16_junk lj, rj, cj;    /* bytes of the union the designated member does not cover */
    uint8_t  lt, rt, ct;           /* tag indices (mixed / laws) */
};
V_INPUT(in_c16s)

static void check_pair(const rtosc_arg_val_t *l, const rtosc_arg_val_t *r,
                       const struct cs_val *sl, const struct cs_val *sr)
{
    int s  = spec_sign(sl, sr);
    int s2 = spec_sign(sr, sl);
    int c  = rtosc_arg_vals_cmp_single(l, r, NULL);
    int e  = rtosc_arg_vals_eq_single(l, r, NULL);
    int c2 = rtosc_arg_vals_cmp_single(r, l, NULL);
    int e2 = rtosc_arg_vals_eq_single(r, l, NULL);
    V_COVER(s < 0); V_COVER(s == 0); V_COVER(s > 0);
    V_ASSERT(cs_sgn(c) == s,  "C16 sign(cmp_single(l,r)) == spec_sign(l,r)");
    V_ASSERT(cs_sgn(c2) == s2, "C16 sign(cmp_single(r,l)) == spec_sign(r,l)");
    V_ASSERT(e == (s == 0),   "C16 eq_single(l,r) == (spec_sign(l,r) == 0)");
    V_ASSERT(e2 == (s2 == 0), "C16 eq_single(r,l) == (spec_sign(r,l) == 0)");
    V_ASSERT((c == 0) == (e != 0), "C16 cmp_single returns 0 exactly when eq_single reports equal");
    V_ASSERT(spec_law_antisym(c, c2), "C16 cmp_single is antisymmetric");
    V_ASSERT(rtosc_arg_vals_cmp_single(l, l, NULL) == 0 && rtosc_arg_vals_eq_single(l, l, NULL) == 1,
             "C16 cmp_single / eq_single are reflexive");
    /* the default options object is what NULL stands for */
    const rtosc_cmp_options *d = get_default_cmp_options();
    V_ASSERT(d->float_tolerance == 0.0, "C16 default options: tolerance 0");
    V_ASSERT(rtosc_arg_vals_cmp_single(l, r, d) == c && rtosc_arg_vals_eq_single(l, r, d) == e,
             "C16 default options object behaves like opt == NULL");
}

#if defined(C16_TAG) && defined(H_SCALAR)
void h_scalar(void)
{
    in_init();
    V_ASSUME(c16_scalar_in_domain(C16_TAG, IN.lb) && c16_scalar_in_domain(C16_TAG, IN.rb)
             && c16_scalar_in_domain(C16_TAG, IN.cb));
    rtosc_arg_val_t l, r, x;
    struct cs_val sl, sr, sx;
    c16_mk_scalar(C16_TAG, IN.lb, &IN.lj, &l, &sl);
    c16_mk_scalar(C16_TAG, IN.rb, &IN.rj, &r, &sr);
    c16_mk_scalar(C16_TAG, IN.cb, &IN.cj, &x, &sx);
    check_pair(&l, &r, &sl, &sr);
    /* transitivity of the code's own results on a triple */
    int ab = rtosc_arg_vals_cmp_single(&l, &r, NULL), bc = rtosc_arg_vals_cmp_single(&r, &x, NULL),
        ac = rtosc_arg_vals_cmp_single(&l, &x, NULL);
    V_ASSERT(spec_law_trans(ab, bc, ac), "C16 cmp_single is transitive");
}
#endif

#if defined(C16_TAG) && defined(H_SCALAR_MIXED)
/* both types are concrete in every call (a symbolic type makes the code's `switch(_lhs->type)` reach the array
 * case and with it the eq/cmp recursion: no result in 10 min): left type fixed per obligation, right type runs
 * over the OTHER eleven scalar types in a constant loop; all payloads symbolic */
void h_scalar_mixed(void)
{
    in_init();
    const char lt = C16_TAG;
    for(int k = 0; k < 12; k++) {
        const char rt = C16_SCALAR_TAGS[k];
        if(rt == lt) continue;
        if(!c16_scalar_in_domain(lt, IN.lb) || !c16_scalar_in_domain(rt, IN.rb)) continue;
        rtosc_arg_val_t l, r;
        struct cs_val sl, sr;
        c16_mk_scalar(lt, IN.lb, &IN.lj, &l, &sl);
        c16_mk_scalar(rt, IN.rb, &IN.rj, &r, &sr);
        int s = spec_sign(&sl, &sr);
        V_ASSERT(s == (lt < rt ? -1 : 1), "spec: different types are ordered by type character (harness self-check)");
        check_pair(&l, &r, &sl, &sr);
    }
}
#endif

#ifdef H_SPEC_LAWS
void h_spec_laws(void)
{
    in_init();
    V_ASSUME(IN.lt < 12 && IN.rt < 12 && IN.ct < 12);
    char at = C16_SCALAR_TAGS[IN.lt], bt = C16_SCALAR_TAGS[IN.rt], ct = C16_SCALAR_TAGS[IN.ct];
    V_ASSUME(c16_scalar_in_domain(at, IN.lb) && c16_scalar_in_domain(bt, IN.rb) && c16_scalar_in_domain(ct, IN.cb));
    rtosc_arg_val_t a, b, c;
    struct cs_val sa, sb, sc;
    c16_mk_scalar(at, IN.lb, &IN.lj, &a, &sa);
    c16_mk_scalar(bt, IN.rb, &IN.rj, &b, &sb);
    c16_mk_scalar(ct, IN.cb, &IN.cj, &c, &sc);
    int ab = spec_sign(&sa, &sb), ba = spec_sign(&sb, &sa), bc = spec_sign(&sb, &sc), ac = spec_sign(&sa, &sc);
    V_COVER(ab < 0 && bc < 0); V_COVER(ab == 0 && bc == 0 && at != 'T'); V_COVER(ab > 0 && bc > 0);
    V_ASSERT(ab >= -1 && ab <= 1, "spec_sign is a sign");
    V_ASSERT(spec_sign(&sa, &sa) == 0, "spec_sign is reflexive");
    V_ASSERT(ab == -ba, "spec_sign is antisymmetric");
    V_ASSERT(spec_law_trans(ab, bc, ac), "spec_sign is transitive (incl. transitivity of equality)");
}
#endif
