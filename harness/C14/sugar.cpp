/* C14 - parameter ports clamp and report every change.
 *
 * Route R3 (DESIGN section 4): the REAL macro bodies of /repo/include/rtosc/port-sugar.h, each instantiated
 * as the body of a named function (c14_boil.h, generated on every run from the header's own rBOIL_BEGIN text
 * by two must-fire substitutions), compiled by CBMC's C++ front end.  Collaborators are harness-side
 * contracts (contracts/sugar.h); the oracle is spec/clamp_spec.h, written from the property statement.
 *
 * One entry point per callback kind; the operation is chosen at compile time:
 *     -DC14_OP=0  query  (message without arguments)
 *     -DC14_OP=1  set    (numeric argument / T|F)
 *     -DC14_OP=2  set by option symbol (tag "s" or "S", option kinds only)
 *     -DC14_ONLY_PREV   only the assertions about the PREVIOUS value carried by the undo event
 *                       (separate obligation so that a finding there masks nothing else)
 * Every input is a member of IN (integers / bit patterns only).
 */
#include "C14/verif_cxx.h"
#include <rtosc/rtosc.h>            /* the real C header: rtosc_arg_t */
#include <cstring>                  /* C14 stub */
#include "C14/stubs/ports_stub.h"
#include "sugar.h"                  /* collaborator contracts + recorder */
#include "clamp_spec.h"
using rtosc::enum_key;              /* the real code finds these by argument-dependent lookup (not in CBMC) */
using rtosc::enum_key_from_msg;

#include "c14/port-sugar.h"         /* THE REAL HEADER: copy generated on every run by props/C14.py, byte-identical
                                     * unless the may-fire rule decl-in-cond rewrote `if(T x = e)` (logged) */
#include "c14_boil.h"               /* generated: #undef rBOIL_BEGIN + the header's own prologue as a function header */

#ifndef C14_OP
#define C14_OP 1
#endif
#define NEL 12                      /* array length: indices 0..11 = one- and two-digit addresses */
#define SLEN 8                      /* declared length of the string port */

struct Obj {
    char  pc;  int pi;  float pf;  bool pt;  int po;
    float af[NEL];  char ai[NEL];  bool at[NEL];  int ao[NEL];
    char  str[SLEN];
};
#define rObject Obj

/* ---- the callbacks under test: header token sequences, nothing else ---- */
static void cb_rParamCb       rParamCb(pc)
static void cb_rParamICb      rParamICb(pi)
static void cb_rParamFCb      rParamFCb(pf)
static void cb_rToggleCb      rToggleCb(pt)
static void cb_rOptionCb      rOptionCb(po)
static void cb_rArrayFCb      rArrayFCb(af)
static void cb_rArrayICb      rArrayICb(ai)
static void cb_rArrayTCb      rArrayTCb(at)
static void cb_rArrayOptionCb rArrayOptionCb(ao)
static void cb_rStringCb      rStringCb(str, SLEN)

/* ---- inputs ---- */
struct c14_in {
    int            v_i;                 /* incoming integer                                   */
    unsigned       v_fbits;             /* incoming float (bit pattern)                       */
    unsigned char  v_t;                 /* incoming toggle                                    */
    unsigned char  tag_sel;             /* option int path: tag "i" or "c"; symbol path: "s"/"S" */
    unsigned char  has_min, has_max;
    int            min_i, max_i;
    unsigned long long min_dbits, max_dbits;
    int            old_i;               /* previous value of the addressed storage            */
    unsigned       old_fbits;
    int            enum_idx;            /* index of the incoming option symbol                */
    unsigned       idx;                 /* array ports: element the address names             */
    unsigned       k;                   /* ghost index for the frame                          */
    int            fill;                /* content of everything else in the object           */
    unsigned char  sin[12];             /* incoming string bytes                              */
    unsigned char  sold[SLEN];          /* previous string                                    */
};
V_INPUT(c14_in)

#ifdef C14_ONLY_PREV
#define A_MAIN(c, m) ((void)0)
#define A_PREV(c, m) V_ASSERT(c, m)
#else
#define A_MAIN(c, m) V_ASSERT(c, m)
#define A_PREV(c, m) ((void)0)
#endif

static Obj O, O0;
static rtosc::RtData D;
static rtosc::Port PORT;
static char LOC[8] = { '/', 'o', '/', 'p', 0, 0, 0, 0 };
static char MSG[8];
static const char META[] = ":parameter";
static char SIN[12];

enum { F_NONE, F_PC, F_PI, F_PF, F_PT, F_PO, F_AF, F_AI, F_AT, F_AO, F_STR };

static void setup_common(void)
{
    in_init();
    V_ASSUME(IN.k < NEL);
    int f = IN.fill;
    O.pc = (char)f; O.pi = f; O.pf = (float)(f >> 3) * 0.25f; O.pt = (f & 1) != 0; O.po = f + 1;
    for(unsigned j = 0; j < NEL; j++) {
        O.af[j] = (float)(f + (int)j) * 0.5f; O.ai[j] = (char)(f + j); O.at[j] = ((f >> j) & 1) != 0; O.ao[j] = f - (int)j;
    }
    for(unsigned j = 0; j < SLEN; j++) O.str[j] = (char)IN.sold[j];
    PORT.name = "p"; PORT.metadata = META;
    D.loc = LOC; D.loc_size = sizeof(LOC); D.obj = &O; D.matches = 0; D.port = &PORT; D.message = MSG;
    MSG[0] = 'p'; MSG[1] = 0;
    E.msg = MSG; E.meta_ptr = META + 1; E.idx_txt = 0; E.idx = 0;
    E.has_min = IN.has_min != 0; E.has_max = IN.has_max != 0;
    E.min_i = IN.min_i; E.max_i = IN.max_i;
    E.min_d = v_bits_d(IN.min_dbits); E.max_d = v_bits_d(IN.max_dbits);
    E.enum_idx = IN.enum_idx;
    NEV = 0;
}

/* address of an array port: "p<idx>" in decimal, one or two digits */
static void setup_index(void)
{
    V_ASSUME(IN.idx < NEL);
    if(IN.idx < 10) { MSG[1] = (char)('0' + IN.idx); MSG[2] = 0; }
    else            { MSG[1] = '1'; MSG[2] = (char)('0' + (IN.idx - 10)); MSG[3] = 0; }
    E.idx_txt = &MSG[1]; E.idx = IN.idx;
    V_COVER(IN.idx == 0); V_COVER(IN.idx == 9); V_COVER(IN.idx == 11);
}

/* input-domain preconditions on the declared range, in the storage type */
static void assume_range_char(void)
{
    V_ASSUME(!E.has_min || (E.min_i >= -128 && E.min_i <= 127));
    V_ASSUME(!E.has_max || (E.max_i >= -128 && E.max_i <= 127));
    V_ASSUME(!(E.has_min && E.has_max) || E.min_i <= E.max_i);
}
static void assume_range_int(void)
{
    V_ASSUME(!(E.has_min && E.has_max) || E.min_i <= E.max_i);
}
static void assume_range_float(void)
{
    V_ASSUME(!E.has_min || E.min_d == E.min_d);
    V_ASSUME(!E.has_max || E.max_d == E.max_d);
    V_ASSUME(!(E.has_min && E.has_max) || (float)E.min_d <= (float)E.max_d);
}

static void set_args_query(void) { E.args = ""; E.arg0.i = 0; }

/* ---- frame: everything except field `skip` (array fields: except element idx) is bit-identical ---- */
static bool frame_ok(int skip, unsigned idx)
{
    unsigned k = IN.k;
    bool ok = true;
    if(skip != F_PC) ok = ok && O.pc == O0.pc;
    if(skip != F_PI) ok = ok && O.pi == O0.pi;
    if(skip != F_PF) ok = ok && v_f_bits(O.pf) == v_f_bits(O0.pf);
    if(skip != F_PT) ok = ok && O.pt == O0.pt;
    if(skip != F_PO) ok = ok && O.po == O0.po;
    if(skip != F_AF || k != idx) ok = ok && v_f_bits(O.af[k]) == v_f_bits(O0.af[k]);
    if(skip != F_AI || k != idx) ok = ok && O.ai[k] == O0.ai[k];
    if(skip != F_AT || k != idx) ok = ok && O.at[k] == O0.at[k];
    if(skip != F_AO || k != idx) ok = ok && O.ao[k] == O0.ao[k];
    if(skip != F_STR) ok = ok && O.str[k % SLEN] == O0.str[k % SLEN];
    return ok;
}

static bool kind_matches(char tag, int kind)
{
    if(tag == 'f') return kind == K_DBL;
    if(tag == 'i' || tag == 'c') return kind == K_INT;
    if(tag == 's') return kind == K_STR;
    return false;
}
/* numeric value of recorded argument k, whatever C type it was pushed with */
static double ev_num(const c14_event *e, int k) { return e->kind[k] == K_DBL ? e->d[k] : (double)e->i[k]; }

/* ---- oracle: query ---- */
static void check_query_num(char tag, double stored)
{
    A_MAIN(NEV == 1 && EV[0].chan == C14_REPLY, "query: exactly one message, a reply");
    A_MAIN(EV[0].path == D.loc && D.loc == LOC, "query: replied at the port's full address");
    A_MAIN(EV[0].fmt[0] == tag && EV[0].fmt[1] == 0 && EV[0].nargs == 1, "query: reply carries one value with the port's type tag");
    A_MAIN(kind_matches(tag, EV[0].kind[0]), "query: value pushed with the C type its tag announces");
    A_MAIN(ev_num(&EV[0], 0) == stored, "query: replies the stored value");
    A_MAIN(frame_ok(F_NONE, 0), "query: changes nothing");
    V_COVER(NEV == 1);
}
static void check_query_toggle(bool stored)
{
    A_MAIN(NEV == 1 && EV[0].chan == C14_REPLY, "query: exactly one message, a reply");
    A_MAIN(EV[0].path == D.loc && D.loc == LOC, "query: replied at the port's full address");
    A_MAIN(EV[0].fmt[0] == (stored ? 'T' : 'F') && EV[0].fmt[1] == 0 && EV[0].nargs == 0, "query: replies the stored toggle as T/F");
    A_MAIN(frame_ok(F_NONE, 0), "query: changes nothing");
    V_COVER(stored); V_COVER(!stored);
}

/* ---- oracle: set on a numeric / option port ----
 * before/expect/stored as doubles (exact for char, int and float), tag = the port's type tag,
 * bc_fmt = the format the broadcast must carry when it is not the one-letter tag (option ports answer
 * with the incoming tag string), skip/idx = the storage the port owns.                                   */
static void check_set_num(double before, double expect, double stored, bool changed,
                          char tag, const char *bc_fmt, int skip, unsigned idx)
{
    A_MAIN(stored == expect, "set: stored value == incoming value clamped to the declared min/max");
    A_MAIN(frame_ok(skip, idx), "set: touches only the storage the address names");
    int n_undo = 0, n_bc = 0, n_other = 0, u = 0, b = 0;
    for(int k = 0; k < C14_MAXEV; k++) {
        if(k < NEV) {
            if(EV[k].chan == C14_BROADCAST) { n_bc++; b = k; }
            else if(EV[k].path != LOC)      { n_undo++; u = k; }
            else                            n_other++;
        }
    }
    A_MAIN(n_other == 0, "set: no reply at the port address");
    A_MAIN(n_bc == 1, "set: the new value is broadcast exactly once");
    A_MAIN(n_undo == (changed ? 1 : 0), "set: exactly one undo event if and only if the stored value changed");
    if(n_bc == 1) {
        const c14_event *e = &EV[b];
        A_MAIN(e->path == D.loc && D.loc == LOC, "set: broadcast at the port's full address");
        if(bc_fmt) A_MAIN(e->fmt == bc_fmt, "set: broadcast with the incoming type tag");
        else       A_MAIN(e->fmt[0] == tag && e->fmt[1] == 0, "set: broadcast with the port's type tag");
        A_MAIN(e->nargs == 1 && kind_matches(bc_fmt ? 'i' : tag, e->kind[0]), "set: broadcast value pushed with the C type its tag announces");
        A_MAIN(ev_num(e, 0) == expect, "set: broadcast carries the new value");
    }
    if(n_undo == 1) {
        const c14_event *e = &EV[u];
        A_MAIN(strcmp(e->path, "/undo_change") == 0, "undo: sent to /undo_change");
        A_MAIN(e->fmt[0] == 's' && e->fmt[1] == tag && e->fmt[2] == tag && e->fmt[3] == 0 && e->nargs == 3,
               "undo: format is s + the port's type tag twice");
        A_MAIN(e->kind[0] == K_STR && e->s[0] == D.loc && D.loc == LOC, "undo: carries the port's full address");
        A_MAIN(kind_matches(tag, e->kind[2]), "undo: new value pushed with the C type its tag announces");
        A_MAIN(ev_num(e, 2) == expect, "undo: carries the new value");
        A_PREV(kind_matches(tag, e->kind[1]), "undo: previous value pushed with the C type its tag announces");
        A_PREV(ev_num(e, 1) == before, "undo: carries the true previous value");
        V_COVER(n_undo == 1 && e->nargs == 3);
    }
    V_COVER(changed); V_COVER(!changed);
}

static void check_set_toggle(bool before, bool incoming, bool stored, int skip, unsigned idx)
{
    A_MAIN(stored == incoming, "set: stored toggle == incoming toggle");
    A_MAIN(frame_ok(skip, idx), "set: touches only the storage the address names");
    bool changed = before != incoming;
    A_MAIN(NEV == (changed ? 1 : 0), "set: one broadcast if and only if the toggle changed");
    if(NEV == 1) {
        A_MAIN(EV[0].chan == C14_BROADCAST && EV[0].path == D.loc && D.loc == LOC, "set: broadcast at the port's full address");
        A_MAIN(EV[0].fmt[0] == (incoming ? 'T' : 'F') && EV[0].fmt[1] == 0 && EV[0].nargs == 0, "set: broadcast carries the new toggle");
    }
    V_COVER(changed); V_COVER(!changed);
}

/* ---- incoming values ---- */
static int incoming_char_range(void)            /* rParam / rArrayI are driven with -128..127 (property quantifier) */
{
    V_ASSUME(IN.v_i >= -128 && IN.v_i <= 127);
    E.args = "i"; E.arg0.i = IN.v_i;
    return IN.v_i;
}
static int incoming_int(void) { E.args = "i"; E.arg0.i = IN.v_i; return IN.v_i; }
static float incoming_float(void)
{
    float v = v_bits_f(IN.v_fbits);
    V_ASSUME(v == v);                           /* NaN is not a value in any range */
    E.args = "f"; E.arg0.f = v;
    return v;
}
static bool incoming_toggle(void)
{
    bool t = IN.v_t != 0;
    E.args = t ? "T" : "F"; E.arg0.T = t;
    return t;
}
static float old_float(void) { float o = v_bits_f(IN.old_fbits); V_ASSUME(o == o); return o; }

#define COVER_CLAMP(v, lo, hi) \
    V_COVER(E.has_min && (v) < (lo)); V_COVER(E.has_max && (v) > (hi)); \
    V_COVER(E.has_min && E.has_max && (v) >= (lo) && (v) <= (hi)); V_COVER(!E.has_min && !E.has_max); \
    V_COVER(E.has_min && (v) == (lo)); V_COVER(E.has_max && (v) == (hi));

/* =============================================================== char parameter: rParamCb */
extern "C" void h_rParamCb(void)
{
    setup_common(); assume_range_char();
    O.pc = (char)IN.old_i; O0 = O;
#if C14_OP == 0
    set_args_query(); cb_rParamCb(MSG, D); check_query_num('c', (double)O0.pc);
#else
    int v = incoming_char_range();
    cb_rParamCb(MSG, D);
    int expect = spec_clamp_i(v, E.has_min, E.min_i, E.has_max, E.max_i);
    COVER_CLAMP(v, E.min_i, E.max_i)
    check_set_num((double)O0.pc, (double)expect, (double)O.pc, spec_undo_events_i(O0.pc, expect) == 1, 'c', 0, F_PC, 0);
#endif
}

/* =============================================================== int parameter: rParamICb */
extern "C" void h_rParamICb(void)
{
    setup_common(); assume_range_int();
    O.pi = IN.old_i; O0 = O;
#if C14_OP == 0
    set_args_query(); cb_rParamICb(MSG, D); check_query_num('i', (double)O0.pi);
#else
    int v = incoming_int();
    cb_rParamICb(MSG, D);
    int expect = spec_clamp_i(v, E.has_min, E.min_i, E.has_max, E.max_i);
    COVER_CLAMP(v, E.min_i, E.max_i)
    V_COVER(v == 2147483647); V_COVER(v == (-2147483647 - 1));
    check_set_num((double)O0.pi, (double)expect, (double)O.pi, spec_undo_events_i(O0.pi, expect) == 1, 'i', 0, F_PI, 0);
#endif
}

/* =============================================================== float parameter: rParamFCb */
extern "C" void h_rParamFCb(void)
{
    setup_common(); assume_range_float();
    O.pf = old_float(); O0 = O;
#if C14_OP == 0
    set_args_query(); cb_rParamFCb(MSG, D); check_query_num('f', (double)O0.pf);
#else
    float v = incoming_float();
    cb_rParamFCb(MSG, D);
    float lo = (float)E.min_d, hi = (float)E.max_d;
    float expect = spec_clamp_f(v, E.has_min, lo, E.has_max, hi);
    COVER_CLAMP(v, lo, hi)
    V_COVER(v == 0.5f); V_COVER(v > 3.0e38f); V_COVER(v < -3.0e38f);
    check_set_num((double)O0.pf, (double)expect, (double)O.pf, spec_undo_events_f(O0.pf, expect) == 1, 'f', 0, F_PF, 0);
#endif
}

/* =============================================================== toggle: rToggleCb */
extern "C" void h_rToggleCb(void)
{
    setup_common();
    O.pt = (IN.old_i & 1) != 0; O0 = O;
#if C14_OP == 0
    set_args_query(); cb_rToggleCb(MSG, D); check_query_toggle(O0.pt);
#else
    bool t = incoming_toggle();
    cb_rToggleCb(MSG, D);
    check_set_toggle(O0.pt, t, O.pt, F_PT, 0);
#endif
}

/* =============================================================== option: rOptionCb (int-backed) */
static const char *option_args_int(void)  { return (IN.tag_sel & 1) ? "c" : "i"; }
static const char *option_args_sym(void)  { return (IN.tag_sel & 1) ? "S" : "s"; }

extern "C" void h_rOptionCb(void)
{
    setup_common(); assume_range_int();
    O.po = IN.old_i; O0 = O;
#if C14_OP == 0
    set_args_query(); cb_rOptionCb(MSG, D); check_query_num('i', (double)O0.po);
#elif C14_OP == 1
    int v = incoming_int(); E.args = option_args_int();
    cb_rOptionCb(MSG, D);
    int expect = spec_clamp_i(v, E.has_min, E.min_i, E.has_max, E.max_i);
    COVER_CLAMP(v, E.min_i, E.max_i)
    check_set_num((double)O0.po, (double)expect, (double)O.po, spec_undo_events_i(O0.po, expect) == 1, 'i', E.args, F_PO, 0);
#else
    E.args = option_args_sym(); E.arg0.s = SIN;             /* a known symbol; its index is IN.enum_idx */
    cb_rOptionCb(MSG, D);
    int expect = E.enum_idx;
    check_set_num((double)O0.po, (double)expect, (double)O.po, spec_undo_events_i(O0.po, expect) == 1, 'i', 0, F_PO, 0);
#endif
}

/* =============================================================== float array: rArrayFCb */
extern "C" void h_rArrayFCb(void)
{
    setup_common(); setup_index(); assume_range_float();
    unsigned x = IN.idx;
    O.af[x] = old_float(); O0 = O;
#if C14_OP == 0
    set_args_query(); cb_rArrayFCb(MSG, D); check_query_num('f', (double)O0.af[x]);
#else
    float v = incoming_float();
    cb_rArrayFCb(MSG, D);
    float lo = (float)E.min_d, hi = (float)E.max_d;
    float expect = spec_clamp_f(v, E.has_min, lo, E.has_max, hi);
    COVER_CLAMP(v, lo, hi)
    check_set_num((double)O0.af[x], (double)expect, (double)O.af[x], spec_undo_events_f(O0.af[x], expect) == 1, 'f', 0, F_AF, x);
#endif
}

/* =============================================================== char array: rArrayICb */
extern "C" void h_rArrayICb(void)
{
    setup_common(); setup_index(); assume_range_char();
    unsigned x = IN.idx;
    O.ai[x] = (char)IN.old_i; O0 = O;
#if C14_OP == 0
    set_args_query(); cb_rArrayICb(MSG, D); check_query_num('i', (double)O0.ai[x]);
#else
    int v = incoming_char_range();
    cb_rArrayICb(MSG, D);
    int expect = spec_clamp_i(v, E.has_min, E.min_i, E.has_max, E.max_i);
    COVER_CLAMP(v, E.min_i, E.max_i)
    check_set_num((double)O0.ai[x], (double)expect, (double)O.ai[x], spec_undo_events_i(O0.ai[x], expect) == 1, 'i', 0, F_AI, x);
#endif
}

/* =============================================================== toggle array: rArrayTCb */
extern "C" void h_rArrayTCb(void)
{
    setup_common(); setup_index();
    unsigned x = IN.idx;
    O.at[x] = (IN.old_i & 1) != 0; O0 = O;
#if C14_OP == 0
    set_args_query(); cb_rArrayTCb(MSG, D); check_query_toggle(O0.at[x]);
#else
    bool t = incoming_toggle();
    cb_rArrayTCb(MSG, D);
    check_set_toggle(O0.at[x], t, O.at[x], F_AT, x);
#endif
}

/* =============================================================== option array: rArrayOptionCb */
extern "C" void h_rArrayOptionCb(void)
{
    setup_common(); setup_index(); assume_range_int();
    unsigned x = IN.idx;
    O.ao[x] = IN.old_i; O0 = O;
#if C14_OP == 0
    set_args_query(); cb_rArrayOptionCb(MSG, D); check_query_num('i', (double)O0.ao[x]);
#elif C14_OP == 1
    int v = incoming_int(); E.args = option_args_int();
    cb_rArrayOptionCb(MSG, D);
    int expect = spec_clamp_i(v, E.has_min, E.min_i, E.has_max, E.max_i);
    COVER_CLAMP(v, E.min_i, E.max_i)
    check_set_num((double)O0.ao[x], (double)expect, (double)O.ao[x], spec_undo_events_i(O0.ao[x], expect) == 1, 'i', E.args, F_AO, x);
#else
    E.args = option_args_sym(); E.arg0.s = SIN;
    cb_rArrayOptionCb(MSG, D);
    int expect = E.enum_idx;
    check_set_num((double)O0.ao[x], (double)expect, (double)O.ao[x], spec_undo_events_i(O0.ao[x], expect) == 1, 'i', 0, F_AO, x);
#endif
}

/* =============================================================== string: rStringCb (bounded) */
extern "C" void h_rStringCb(void)
{
    setup_common();
#if C14_OP == 0
    O.str[SLEN - 1] = 0;                                    /* a stored string is a string */
#endif
    O0 = O;                                                 /* set: previous content arbitrary, also unterminated */
#if C14_OP == 0
    set_args_query(); cb_rStringCb(MSG, D);
    A_MAIN(NEV == 1 && EV[0].chan == C14_REPLY && EV[0].path == D.loc && D.loc == LOC, "query: one reply at the port's full address");
    A_MAIN(EV[0].fmt[0] == 's' && EV[0].fmt[1] == 0 && EV[0].nargs == 1 && EV[0].kind[0] == K_STR && EV[0].s[0] == O.str,
           "query: replies the stored string");
    A_MAIN(frame_ok(F_NONE, 0), "query: changes nothing");
    V_COVER(NEV == 1);
#else
    unsigned n = 0;                                         /* incoming text: symbolic bytes, symbolic length 0..11 */
    for(unsigned j = 0; j < 12; j++) SIN[j] = (char)IN.sin[j];
    SIN[11] = 0;
    while(SIN[n]) n++;
    E.args = "s"; E.arg0.s = SIN;
    cb_rStringCb(MSG, D);
    unsigned j = IN.k % SLEN;
    A_MAIN(O.str[j] == spec_trunc_byte(SIN, n, SLEN, j), "set: stored string == incoming text truncated to length-1, NUL-terminated");
    A_MAIN(O.str[SLEN - 1] == 0, "set: stored string is NUL-terminated inside its declared length");
    A_MAIN(frame_ok(F_STR, 0), "set: touches only the string");
    A_MAIN(NEV == 1 && EV[0].chan == C14_BROADCAST && EV[0].path == D.loc && D.loc == LOC, "set: one broadcast at the port's full address");
    A_MAIN(EV[0].fmt[0] == 's' && EV[0].fmt[1] == 0 && EV[0].nargs == 1 && EV[0].kind[0] == K_STR && EV[0].s[0] == O.str,
           "set: broadcast carries the stored string");
    V_COVER(n == 0); V_COVER(n == SLEN - 1); V_COVER(n == 11);
#endif
}
