/* C++-mode copy of the few macros of harness/verif.h that a C14 harness needs (verif.h itself pulls
 * <stdlib.h>/<string.h>, which CBMC's C++ front end should not be fed).  Same semantics under CBMC:
 * V_ASSERT is a proof goal, V_ASSUME an input-domain precondition, V_COVER a must-be-reachable goal in
 * the canary build, IN a nondeterministic struct of integers.  There is no native replay build for C++
 * harnesses (vlib compiles replays with gcc -std=gnu11), so C14 obligations are replayable=False. */
#ifndef VERIF_CXX_H
#define VERIF_CXX_H
#ifndef VERIF_CBMC
#error "C14 harnesses are CBMC-only (no native replay build for C++ harnesses)"
#endif
#define V_ASSERT(c, msg) __CPROVER_assert((c), msg)
#define V_ASSUME(c)      __CPROVER_assume(c)
#ifdef VERIF_CANARY
#define V_COVER(c)       __CPROVER_assert(!(c), "CANARY reachable: " #c)
#else
#define V_COVER(c)       ((void)0)
#endif
#define V_INPUT(T)       struct T IN; extern "C" struct T nondet_##T(void); static void in_init(void) { IN = nondet_##T(); }

static inline float  v_bits_f(unsigned u)            { union { unsigned u; float f; } x; x.u = u; return x.f; }
static inline double v_bits_d(unsigned long long u)  { union { unsigned long long u; double d; } x; x.u = u; return x.d; }
static inline unsigned v_f_bits(float f)             { union { unsigned u; float f; } x; x.f = f; return x.u; }
static inline unsigned long long v_d_bits(double d)  { union { unsigned long long u; double d; } x; x.d = d; return x.u; }
#endif
