/* C14 stub of the two classes of <rtosc/ports.h> that the callback bodies of port-sugar.h touch.
 * Field names and order follow /repo/include/rtosc/ports.h. What differs, and why:
 *  - RtData::reply/broadcast: the real members are variadic (const char *path, const char *args, ...).
 *    CBMC's C++ front end mis-resolves a variadic MEMBER call with exactly one variadic argument and does
 *    not apply the default argument promotions (a float stays 32 bit), so va_arg cannot decode the call.
 *    The stub therefore declares one NON-variadic overload per promoted argument-type list that a callback
 *    can produce (int / double / const char*).  Overload resolution (char,bool,enum -> int and
 *    float -> double are promotions and win) then selects exactly the type list the real variadic call
 *    would push, and the recorder stores that type list next to the values.  A call shape outside this
 *    set does not compile (= exit 2, never a verdict).
 *  - no std::function, no Ports, nothing virtual: not touched by the bodies under test.
 * Bodies (the collaborator contracts) are in contracts/sugar.h. */
#ifndef C14_PORTS_STUB_H
#define C14_PORTS_STUB_H
namespace rtosc {
struct Port;
struct RtData
{
    char *loc;
    unsigned long loc_size;
    void *obj;
    int  matches;
    const Port *port;
    const char *message;

    void reply(const char *msg);
    void reply(const char *path, const char *args);
    void reply(const char *path, const char *args, int a);
    void reply(const char *path, const char *args, double a);
    void reply(const char *path, const char *args, const char *a);
    void reply(const char *path, const char *args, const char *a, int b, int c);
    void reply(const char *path, const char *args, const char *a, int b, double c);
    void reply(const char *path, const char *args, const char *a, double b, int c);
    void reply(const char *path, const char *args, const char *a, double b, double c);
    void broadcast(const char *msg);
    void broadcast(const char *path, const char *args);
    void broadcast(const char *path, const char *args, int a);
    void broadcast(const char *path, const char *args, double a);
    void broadcast(const char *path, const char *args, const char *a);
};

struct Port {
    const char  *name;
    const char  *metadata;
    class MetaContainer
    {
        public:
            MetaContainer(const char *str_) : str_ptr(str_) {}
            const char *operator[](const char *str) const;
            const char *str_ptr;
    };
    MetaContainer meta(void) const
    {
        if(metadata && *metadata == ':')
            return MetaContainer(metadata+1);
        else
            return MetaContainer(metadata);
    }
};
int enum_key(Port::MetaContainer meta, const char* value);
int enum_key_from_msg(Port::MetaContainer meta, const char* msg);
}
#endif
