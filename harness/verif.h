/* Dual-mode harness support.
 *   CBMC build   (-DVERIF_CBMC):   IN is a nondeterministic struct, V_ASSERT is a proof goal.
 *   native build (-DVERIF_REPLAY): IN is the counterexample written by the check, V_ASSERT is an
 *                                  oracle that exits 3 when it fails, V_ASSUME exits 4.
 * The same harness + spec source is compiled in both modes, against the real code.        */
#ifndef VERIF_H
#define VERIF_H
#include <stdint.h>
#include <stddef.h>
#include <stdlib.h>
#include <string.h>
#include <stdbool.h>

#ifdef VERIF_REPLAY
#include <stdio.h>
#include "replay_inputs.h"
#define V_ASSERT(c, msg) do { if(!(c)) { fprintf(stderr, "ORACLE-FAIL: %s  [%s:%d]\n", msg, __FILE__, __LINE__); exit(3);} } while(0)
#define V_ASSUME(c)      do { if(!(c)) { fprintf(stderr, "ASSUMPTION-NOT-MET: %s [%s:%d]\n", #c, __FILE__, __LINE__); exit(4);} } while(0)
#define V_COVER(c)       ((void)0)
#define V_KF(tag)        fprintf(stderr, "KF-TAG: %s\n", tag)
#define V_INPUT(T)       struct T IN = REPLAY_INPUTS; static void in_init(void) {}
#define V_MALLOC(n)      malloc((n) ? (n) : 1)   /* exact-size object; ASan traps any access outside */
#define __CPROVER_assume(c) V_ASSUME(c)
#define __CPROVER_assert(c,m) V_ASSERT(c,m)
#else
#define V_ASSERT(c, msg) __CPROVER_assert((c), msg)
#define V_ASSUME(c)      __CPROVER_assume(c)
#ifdef VERIF_CANARY
#define V_COVER(c)       __CPROVER_assert(!(c), "CANARY reachable: " #c)
#else
#define V_COVER(c)       ((void)0)
#endif
#define V_KF(tag)        ((void)0)
#define V_INPUT(T)       struct T IN; struct T nondet_##T(void); static void in_init(void) { IN = nondet_##T(); }
#define V_MALLOC(n)      malloc(n)
#endif

static inline float  v_bits_f(uint32_t u){ float f;  memcpy(&f,&u,4); return f; }
static inline double v_bits_d(uint64_t u){ double d; memcpy(&d,&u,8); return d; }
static inline uint32_t v_f_bits(float f){ uint32_t u; memcpy(&u,&f,4); return u; }
static inline uint64_t v_d_bits(double d){ uint64_t u; memcpy(&u,&d,8); return u; }
#endif
