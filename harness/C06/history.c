/* C06 (bounded, replayable): all short sequential histories of ring operations on small rings against a reference
 * byte FIFO. Every history of HK operations (write of 0..HMAX bytes guarded by ring_write_size as ThreadLink does,
 * normal read, lookahead read, each of a chosen length guarded by ring_read_size) on every ring size 2..HS from
 * every start position: bytes come out identical and in order, none lost/duplicated/torn; a write that does not fit
 * is dropped whole; lookahead reads return the same sequence without consuming; a normal read resynchronises the
 * lookahead position; "has next" is false exactly when everything accepted has been consumed. */
#include "verif.h"
#include <rtosc/rtosc.h>
#include <assert.h>
#include "thread_link_types.inc"
#include "thread_link_ring.inc"

#ifndef HK
#define HK 4
#endif
#ifndef HS
#define HS 8
#endif
#define HMAX 8
struct in_hist {
    uint8_t size, start;
    struct { uint8_t kind, len, data[HMAX]; } op[HK];
};
V_INPUT(in_hist)

void h_history(void)
{
    in_init();
    size_t S = IN.size;
    V_ASSUME(S >= 2 && S <= HS && IN.start < S);
    ringbuffer_t ring;
    ring.buffer = V_MALLOC(HS);                /* the ring uses the first S bytes */
    ring.size = S; ring.write = ring.read = ring.read_lookahead = IN.start;
    /* reference model: an unbounded byte queue with a consume position and a lookahead position */
    uint8_t q[HK * HMAX]; unsigned qw = 0, qr = 0, ql = 0;
    for(int i = 0; i < HK; i++) {
        unsigned kind = IN.op[i].kind % 3, len = IN.op[i].len;
        V_ASSUME(len <= HMAX);
        if(kind == 0) {                        /* write, exactly as ThreadLink::raw_write does it */
            size_t fr = ring_write_size(&ring);
            V_ASSERT(fr == S - 1 - (qw - qr), "C06 free space = size-1 minus the bytes queued");
            if(fr >= len) {
                ring_write(&ring, (const char*)IN.op[i].data, len);
                for(unsigned k = 0; k < len; k++) q[qw++] = IN.op[i].data[k];
                V_COVER(len > 0 && (size_t)ring.write < (size_t)IN.start);   /* wrapped */
            } else V_COVER(1);                  /* dropped whole: model unchanged */
        } else {
            bool la = kind == 2;
            size_t av = ring_read_size(&ring, la);
            V_ASSERT(av == (la ? qw - ql : qw - qr), "C06 readable bytes = accepted minus consumed (per queue)");
            V_ASSERT((av != 0) == ((la ? ql : qr) != qw), "C06 has-next is false exactly when everything accepted has been consumed");
            if(len > av) len = (unsigned)av;
            char out[HMAX];
            ring_read(&ring, out, len, la);
            unsigned from = la ? ql : qr;
            for(unsigned k = 0; k < len; k++)
                V_ASSERT((uint8_t)out[k] == q[from + k], "C06 bytes read are the bytes written, in order, none lost, duplicated or torn");
            if(la) ql += len; else { qr += len; ql = qr; }     /* a normal read resynchronises the lookahead */
            V_COVER(la && len > 0); V_COVER(!la && len > 0 && ql == qr);
        }
        V_ASSERT(ring.write >= 0 && (size_t)ring.write < S && ring.read >= 0 && (size_t)ring.read < S
                 && ring.read_lookahead >= 0 && (size_t)ring.read_lookahead < S, "C06 indices stay inside the ring");
    }
}
