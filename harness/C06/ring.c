/* C06 proof harnesses for the ring operations of thread-link.cpp (mechanically extracted text). */
#include "verif.h"
#include <rtosc/rtosc.h>
#include <assert.h>
#include "thread_link_types.inc"
#include "ring.h"

size_t GK, GQ;            /* ghost offsets: set to arbitrary values by each harness, never written by the code */
size_t nondet_size_t(void); off_t nondet_off_t(void);
#define GHOSTS() do { GK = nondet_size_t(); GQ = nondet_size_t(); G_W0 = nondet_off_t(); G_R0 = nondet_off_t(); G_L0 = nondet_off_t(); } while(0)
#ifdef THREADLINK
size_t G_MSGLEN, G_MAXMSG;
#define TLGHOSTS() do { GHOSTS(); G_MSGLEN = nondet_size_t(); G_MAXMSG = nondet_size_t(); } while(0)
#endif

/* publication order: every buffer copy inside ring_write / ring_read must happen while the index the
 * operation is going to publish still holds its entry value (payload copied BEFORE write is published,
 * space released AFTER the copy-out). The wrapper is defined before the extracted text is included. */
off_t G_W0, G_R0, G_L0; static int g_in_write, g_in_read;
static void at_copy(ringbuffer_t *r)
{
    if(g_in_write) __CPROVER_assert(r->write == G_W0, "C06 publication order: payload copied before the write index is published");
    if(g_in_read)  __CPROVER_assert(r->read == G_R0 && r->read_lookahead == G_L0,
                                    "C06 publication order: space released only after the copy-out");
}
/* `ring` is the parameter of the extracted ring_write / ring_read in whose body the call appears */
#define memcpy(d, s, n) (at_copy(ring), memcpy((d), (s), (n)))
#include "thread_link_ring.inc"
#ifdef THREADLINK
#include "thread_link_methods.inc"
#endif
#undef memcpy

void h_ring_read_size(void)   { ringbuffer_t *ring; bool la; GHOSTS(); ring_read_size(ring, la); }
void h_ring_write_size(void)  { ringbuffer_t *ring; GHOSTS(); ring_write_size(ring); }
void h_ring_read_vector(void) { ringbuffer_t *ring; ring_t *r; bool la; GHOSTS(); ring_read_vector(ring, r, la); }
void h_ring_write(void)       { ringbuffer_t *ring; const char *data; size_t len; GHOSTS(); g_in_write = 1; ring_write(ring, data, len); }
void h_ring_read(void)        { ringbuffer_t *ring; char *data; size_t len; bool la; GHOSTS(); g_in_read = 1; ring_read(ring, data, len, la); }

/* Stale-snapshot lemmas (loop-free arithmetic over all sizes 2..RING_SMAX): each side's computation from a stale
 * copy of the OTHER side's index stays safe, because the other side only moves its index forward within its contract. */
void h_stale_lemmas(void)
{
    size_t S, W, R0, k, m, i, j;
    __CPROVER_assume(S >= 2 && S <= RING_SMAX && W < S && R0 < S);
    /* writer saw read == R0; meanwhile the reader consumed k <= used bytes */
    size_t used0 = USED(W, R0, S);
    __CPROVER_assume(k <= used0);
    size_t R1 = IDX(R0, k, S);
    __CPROVER_assert(USED(W, R1, S) == used0 - k, "C06 lemma: reader progress only grows the free space the writer computed");
    /* so any len <= free(stale) written at W.. does not touch a byte still queued: queued = R1+j, j < used1 */
    size_t free0 = S - 1 - used0;
    __CPROVER_assume(m <= free0 && i < m && j < used0 - k);
    __CPROVER_assert(IDX(W, i, S) != IDX(R1, j, S), "C06 lemma: bytes written under a stale read index are disjoint from the queued bytes");
    /* reader saw write == W; meanwhile the writer appended m <= free bytes: available only grows, prefix unchanged positions */
    size_t W1 = IDX(W, m, S);
    __CPROVER_assert(USED(W1, R0, S) == used0 + m, "C06 lemma: writer progress only grows what the reader may consume");
    size_t j2; __CPROVER_assume(j2 < used0);
    __CPROVER_assert(IDX(W, i, S) != IDX(R0, j2, S), "C06 lemma: bytes the reader copies under a stale write index are not being written");
}

#ifdef THREADLINK
void h_tl_hasNext(void)    { struct ThreadLink *tl; bool la; TLGHOSTS(); ThreadLink_hasNext(tl, la); }
void h_tl_raw_write(void)  { struct ThreadLink *tl; const char *msg; TLGHOSTS(); ThreadLink_raw_write(tl, msg); }
void h_tl_writeArray(void) { struct ThreadLink *tl; const char *d, *a; const rtosc_arg_t *aa; TLGHOSTS(); ThreadLink_writeArray(tl, d, a, aa); }
void h_tl_read(void)       { struct ThreadLink *tl; bool la; TLGHOSTS(); ThreadLink_read(tl, la); }
#endif
