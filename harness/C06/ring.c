/* C06 proof harnesses for the ring operations of thread-link.cpp (mechanically extracted text). */
#include "verif.h"
#include <rtosc/rtosc.h>
#include <assert.h>
#include "thread_link_types.inc"
#include "ring.h"

size_t GK, GQ;            /* ghost offsets: set to arbitrary values by each harness, never written by the code */
size_t nondet_size_t(void); off_t nondet_off_t(void);
#define GHOSTS() do { GK = nondet_size_t(); GQ = nondet_size_t(); G_W0 = nondet_off_t(); G_R0 = nondet_off_t(); G_L0 = nondet_off_t(); } while(0)
#ifdef THREADLINK
size_t G_MSGLEN, G_MAXMSG;
#define TLGHOSTS() do { GHOSTS(); G_MSGLEN = nondet_size_t(); G_MAXMSG = nondet_size_t(); } while(0)
#endif

/* publication order: every buffer copy inside ring_write / ring_read must happen while the index the
 * operation is going to publish still holds its entry value (payload copied BEFORE write is published,
 * space released AFTER the copy-out). The wrapper is defined before the extracted text is included. */
off_t G_W0, G_R0, G_L0; static int g_in_write, g_in_read;
static void at_copy(ringbuffer_t *r)
{
    if(g_in_write) __CPROVER_assert(r->write == G_W0, "C06 publication order: payload copied before the write index is published");
    if(g_in_read)  __CPROVER_assert(r->read == G_R0 && r->read_lookahead == G_L0,
                                    "C06 publication order: space released only after the copy-out");
}
/* `ring` is the parameter of the extracted ring_write / ring_read in whose body the call appears */
#define memcpy(d, s, n) (at_copy(ring), memcpy((d), (s), (n)))
#include "thread_link_ring.inc"
#ifdef THREADLINK
#include "thread_link_methods.inc"
#endif
#undef memcpy

void h_ring_read_size(void)   { ringbuffer_t *ring; bool la; GHOSTS(); ring_read_size(ring, la); }
void h_ring_write_size(void)  { ringbuffer_t *ring; GHOSTS(); ring_write_size(ring); }
void h_ring_read_vector(void) { ringbuffer_t *ring; ring_t *r; bool la; GHOSTS(); ring_read_vector(ring, r, la); }
void h_ring_write(void)       { ringbuffer_t *ring; const char *data; size_t len; GHOSTS(); g_in_write = 1; ring_write(ring, data, len); V_COVER(len > 0 && ring->write < G_W0); /* wrapped */ }
void h_ring_read(void)        { ringbuffer_t *ring; char *data; size_t len; bool la; GHOSTS(); g_in_read = 1; ring_read(ring, data, len, la); V_COVER(len > 0 && !la && ring->read < G_R0); V_COVER(la && len > 0); }

/* Stale-snapshot lemmas (loop-free arithmetic over ALL ring sizes 2..RING_SMAX and all index values): each side's
 * computation from a stale copy of the OTHER side's index stays safe, because the other side only moves its own
 * index forward within its contract.
 *   L1  reader progress by k <= used bytes shrinks the view by exactly k, i.e. the free space the writer computed
 *       from the stale read index is a lower bound of the true free space;
 *   L3  writer progress by m <= free bytes grows the view by exactly m, i.e. what the reader computed from the
 *       stale write index is a lower bound of what may be consumed;
 *   L4  for ANY (write, read): the positions the writer fills (write+i, i < m <= free) are disjoint from the
 *       positions of the queued bytes (read+j, j < used). Instantiated at the advanced read index (by L1 still
 *       m <= free) this is "bytes written under a stale read index never hit a byte still queued"; instantiated
 *       at the stale write index it is "bytes the reader copies are not being written". */
#define LEMMA_VARS uint32_t S, W, R0; __CPROVER_assume(S >= 2 && S <= RING_SMAX && W < S && R0 < S); size_t used0 = USED(W, R0, S); size_t free0 = S - 1 - used0
void h_lemma_reader_progress(void)
{
    LEMMA_VARS; uint32_t k, m;
    __CPROVER_assume(k <= used0);
    size_t R1 = IDX(R0, k, S);
    __CPROVER_assert(USED(W, R1, S) == used0 - k, "C06 lemma L1: reader progress shrinks the view by exactly k");
    __CPROVER_assume(m <= free0);
    __CPROVER_assert(m <= S - 1 - USED(W, R1, S), "C06 lemma L1: a length that fit the stale free space fits the true free space");
}
void h_lemma_writer_progress(void)
{
    LEMMA_VARS; uint32_t m, n;
    __CPROVER_assume(m <= free0);
    size_t W1 = IDX(W, m, S);
    __CPROVER_assert(USED(W1, R0, S) == used0 + m, "C06 lemma L3: writer progress grows the view by exactly m");
    __CPROVER_assume(n <= used0);
    __CPROVER_assert(n <= USED(W1, R0, S), "C06 lemma L3: a length available under the stale write index is still available");
}
void h_lemma_disjoint(void)
{
    LEMMA_VARS; uint32_t m, i, j;
    __CPROVER_assume(m <= free0 && i < m && j < used0);
    __CPROVER_assert(IDX(W, i, S) != IDX(R0, j, S), "C06 lemma L4: positions being written are disjoint from positions of queued bytes");
}

#ifdef THREADLINK
void h_tl_hasNext(void)    { struct ThreadLink *tl; bool la; TLGHOSTS(); ThreadLink_hasNext(tl, la); }
void h_tl_raw_write(void)  { struct ThreadLink *tl; const char *msg; TLGHOSTS(); off_t w0 = 0; ThreadLink_raw_write(tl, msg); V_COVER(G_MSGLEN > tl->MaxMsg); V_COVER(G_MSGLEN <= tl->MaxMsg); }
void h_tl_writeArray(void) { struct ThreadLink *tl; const char *d, *a; const rtosc_arg_t *aa; TLGHOSTS(); ThreadLink_writeArray(tl, d, a, aa); }
void h_tl_write(void)      { struct ThreadLink *tl; const char *d, *a; TLGHOSTS(); ThreadLink_write(tl, d, a); }
void h_tl_read(void)       { struct ThreadLink *tl; bool la; TLGHOSTS(); ThreadLink_read(tl, la); V_COVER(la); V_COVER(!la); }
#endif
