/* C06 interference obligations (loop-free, all ring sizes, all index values): the real ring_read_size,
 * ring_read_vector and ring_write_size, with every load of the OTHER thread's index replaced (mechanically, at
 * extraction) by an observation point at which that thread may have made ANY progress its own contract allows:
 * the writer only moves `write` forward within the free space, the reader only moves `read` forward within the
 * queued bytes. Whatever the operation then reports must be safe with respect to the state at its end:
 * readable segments lie inside the buffer and inside what has been published; the reported free space does not
 * exceed the true free space. A second, later load of the other side's index inside one operation (a stale/fresh
 * mix) breaks these. */
#include "verif.h"
#include <rtosc/rtosc.h>
#include <assert.h>
#include "thread_link_types.inc"
#include "ring.h"
size_t GK, GQ; off_t G_W0, G_R0, G_L0;
size_t nondet_size_t(void);

static off_t obs_write(ringbuffer_t *ring)      /* the writer thread: forward, at most into the free space */
{
    size_t adv = nondet_size_t(), S = ring->size;
    size_t fr = S - 1 - USED(ring->write, ring->read, S);
    __CPROVER_assume(adv <= fr);
    ring->write = (off_t)IDX(ring->write, adv, S);
    return ring->write;
}
static off_t obs_read(ringbuffer_t *ring)       /* the reader thread: forward, at most over the queued bytes */
{
    size_t adv = nondet_size_t(), S = ring->size;
    __CPROVER_assume(adv <= USED(ring->write, ring->read, S));
    ring->read = (off_t)IDX(ring->read, adv, S);
    ring->read_lookahead = ring->read;
    return ring->read;
}
#define OBS_WRITE(ring) obs_write(ring)
#define OBS_READ(ring)  obs_read(ring)
#include "thread_link_ring_obs.inc"

static char BUF[1];
static void any_ring(ringbuffer_t *ring)
{
    ring->buffer = BUF;                /* only addresses are computed, nothing is dereferenced */
    ring->size = nondet_size_t(); ring->write = (off_t)nondet_size_t(); ring->read = (off_t)nondet_size_t();
    ring->read_lookahead = (off_t)nondet_size_t();
    __CPROVER_assume(RING_WF_NUM(ring));
}

void h_obs_read_vector(void)
{
    ringbuffer_t ring; ring_t r[2]; bool la;
    any_ring(&ring);
    off_t rd = la ? ring.read_lookahead : ring.read;
    ring_read_vector(&ring, r, la);
    size_t S = ring.size, avail = USED(ring.write, rd, S);
    V_ASSERT(r[0].len + r[1].len <= avail, "C06 interference: the reader is never told that unpublished bytes are readable");
    V_ASSERT(r[0].data == ring.buffer + rd && r[0].len <= S - (size_t)rd, "C06 interference: first segment starts at the read position and stays inside the buffer");
    V_ASSERT(r[1].len == 0 || (r[1].data == ring.buffer && r[0].len == S - (size_t)rd && r[1].len <= (size_t)rd),
             "C06 interference: a second segment exists only after the first one reached the end of the buffer, and ends before the read position");
    V_COVER(r[1].len > 0);
}
void h_obs_read_size(void)
{
    ringbuffer_t ring; bool la;
    any_ring(&ring);
    off_t rd = la ? ring.read_lookahead : ring.read;
    size_t n = ring_read_size(&ring, la);
    V_ASSERT(n <= USED(ring.write, rd, ring.size), "C06 interference: readable size never exceeds what has been published");
}
void h_obs_write_size(void)
{
    ringbuffer_t ring;
    any_ring(&ring);
    size_t n = ring_write_size(&ring);
    V_ASSERT(n <= ring.size - 1 - USED(ring.write, ring.read, ring.size), "C06 interference: reported free space never exceeds the true free space");
}
