/* C06 native deterministic-schedule demonstration (supporting fact + replay for the publication-order obligations).
 * The REAL src/cpp/thread-link.cpp is compiled into this file with memcpy redirected to a hook. At every buffer copy
 * inside a writer operation the reader thread's step is run (hasNext/read), and at every copy inside a reader operation
 * the writer thread's step is run (write of the next message) - i.e. the other thread is scheduled at every point where
 * ring bytes are being moved, which is where a wrong copy/publish or copy/release order becomes visible. Every message
 * that comes out must be byte-identical to the next message that went in (none lost, duplicated or torn).
 * exit 0 = FIFO held under all these schedules, 1 = violation (printed), 2 = internal problem. */
#include <cstring>
#include <cstdio>
#include <cstdlib>
static void *hook_memcpy(void *d, const void *s, size_t n);
#define memcpy(d, s, n) hook_memcpy((d), (s), (n))
#include THREAD_LINK_CPP
#undef memcpy
#include <rtosc/rtosc.h>

using rtosc::ThreadLink;
static ThreadLink *TL;
static int in_writer, in_reader, depth;
static unsigned next_w, next_r, failures, reads, interleaved_reads, interleaved_writes;
static unsigned MAXMSG, NMSG, RING;

static size_t make(unsigned k, char *buf)            /* message k: varying size, content depends on k */
{
    char s[40]; unsigned len = 1 + (k * 7) % 19;     /* encoded size 16..32 <= every MaxMsg used below */
    for(unsigned i = 0; i < len; i++) s[i] = 'a' + (k + i) % 26;
    s[len] = 0;
    return rtosc_message(buf, 128, "/m", "is", (int)k, s);
}
static void reader_step(void)
{
    if(!TL->hasNext()) return;
    const char *m = TL->read();
    char ref[128]; size_t n = make(next_r, ref);
    reads++;
    if(memcmp(m, ref, n) != 0) {
        if(failures++ < 5) printf("FAIL: message %u came out wrong (arg %d, expected %u)%s\n", next_r, rtosc_argument(m, 0).i, next_r,
                                   in_writer ? " - read while the writer was inside a copy" : "");
        /* resynchronise on what actually arrived, if it is parseable */
    }
    next_r++;
}
static void *hook_memcpy(void *d, const void *s, size_t n)
{
    void *r = ::memmove(d, s, n);                     /* the copy itself */
    if(depth == 0) {
        depth++;
        if(in_writer) { interleaved_reads++; reader_step(); }            /* reader scheduled inside a writer copy */
        else if(in_reader) {                                              /* writer scheduled inside a reader copy */
            char buf[128]; size_t n = next_w < NMSG ? make(next_w, buf) : 0;
            unsigned queued = 0;
            for(unsigned k = next_r; k < next_w; k++) { char t[128]; queued += make(k, t); }
            /* the message being copied out still occupies its bytes (counted in queued): a correct reader has not released them */
            if(n && queued + n <= RING - 1) { interleaved_writes++; TL->raw_write(buf); next_w++; }
        }
        depth--;
    }
    return r;
}

int main(void)
{
    static const unsigned sizes[][2] = { {32, 4}, {40, 3}, {36, 5}, {64, 2} };   /* MaxMsg, count: incl. non power-of-two rings */
    for(unsigned c = 0; c < sizeof sizes / sizeof sizes[0]; c++) {
        MAXMSG = sizes[c][0]; NMSG = 400; next_w = next_r = 0;
        ThreadLink tl(sizes[c][0], sizes[c][1]); TL = &tl;
        unsigned ring = sizes[c][0] * sizes[c][1]; RING = ring;
        while(next_r < NMSG && failures == 0) {
            /* writer: write while the next message surely fits (free >= message size), reader otherwise */
            char buf[128]; size_t n = next_w < NMSG ? make(next_w, buf) : 0;
            unsigned queued = 0;   /* bytes queued = sum of sizes of messages next_r..next_w-1 */
            for(unsigned k = next_r; k < next_w; k++) { char t[128]; queued += make(k, t); }
            if(next_w < NMSG && queued + n <= ring - 1 && (next_w % 3 != 2 || queued == 0)) {
                in_writer = 1; TL->raw_write(buf); in_writer = 0; next_w++;
            } else {
                in_reader = 1; reader_step(); in_reader = 0;
            }
            if(next_w >= NMSG && !TL->hasNext() && next_r < next_w) { printf("FAIL: %u messages lost\n", next_w - next_r); failures++; break; }
        }
    }
    printf("%s: %u reads, %u reader steps scheduled inside a writer copy, %u writes scheduled inside a reader copy, %u failures\n", failures ? "VIOLATION" : "ok", reads, interleaved_reads, interleaved_writes, failures);
    return failures ? 1 : 0;
}
