/* C03: instantiates the library's own parameter-port callbacks (real include/rtosc/port-sugar.h) so that the
 * lambdas become object code whose call graph is checked against the effects contract. Compiled with the
 * shipped flags by props/C03.py; never run. */
#include <rtosc/ports.h>
#include <rtosc/port-sugar.h>
struct Sub { int x; static const rtosc::Ports ports; };
struct Obj {
    char  c; int i; float f; bool t; int opt; char str[16];
    float af[4]; char ai[4]; bool at[4]; int ao[4];
    Sub sub; Sub *psub; Sub subs[3];
    static const rtosc::Ports ports;
};
#define rObject Sub
const rtosc::Ports Sub::ports = {
    rParamI(x, rLinear(0,10), "x"),
};
#undef rObject
#define rObject Obj
const rtosc::Ports Obj::ports = {
    rParam(c, rLinear(0,127), "char"),
    rParamI(i, rLinear(-5,5), "int"),
    rParamF(f, rLinear(-1,1), "float"),
    rToggle(t, "toggle"),
    rOption(opt, rOptions(red,blue,green), "option"),
    rString(str, 16, "string"),
    rArrayF(af, 4, rLinear(0,1), "float array"),
    rArrayI(ai, 4, rLinear(0,9), "int array"),
    rArrayT(at, 4, "toggle array"),
    rArrayOption(ao, 4, rOptions(a,b), "option array"),
    rRecur(sub, "sub tree"),
    rRecurp(psub, "pointer sub tree"),
    rRecurs(subs, 3, "sub trees"),
    rSelf(Obj),
};
