/* C18 proof-mode harnesses: contracts of contracts/collapse.h enforced on the mechanically extracted text
 * (with the loop contracts of contracts/collapse.loops injected), helpers replaced by their contracts in
 * collapsePath. The harness only builds the memory picture (one object base[0..C18_LEN+2), path at base+1). */
#include "verif.h"
#include "collapse.h"
size_t C18_LEN;
#include COLLAPSE_INC

static char *mk_buffer(void)
{
    size_t n;
    __CPROVER_assume(n <= C18_MAXLEN);
    C18_LEN = n;
    char *base = malloc(n + 2);
    return base;
}

void h_parent_path_p(void) { char *base = mk_buffer(); size_t a, b; __CPROVER_assume(a <= C18_LEN + 1 && b <= C18_LEN + 1);
                             parent_path_p(base + a, base + b); V_COVER(1); }
void h_read_path(void)     { char *base = mk_buffer(); size_t a, b; __CPROVER_assume(a <= C18_LEN + 1 && b <= C18_LEN + 1);
                             char *r = base + a; read_path(&r, base + b); V_COVER(r < base + a); }
void h_move_path(void)     { char *base = mk_buffer(); size_t a, b, c; __CPROVER_assume(a <= C18_LEN + 1 && b <= C18_LEN + 1 && c <= C18_LEN + 1);
                             char *r = base + a, *w = base + c; move_path(&r, &w, base + b); V_COVER(r < base + a); }
void h_collapsePath(void)  { char *base = mk_buffer(); char *res = Ports_collapsePath(base + 1); V_COVER(C18_LEN > 4 && res > base + 1); }
