/* C18 bounded functional obligation: for EVERY absolute path of exactly N bytes over {'/','.','a','b'}
 * (optionally: without empty components) the real collapsePath (mechanically extracted text) returns,
 * inside the same buffer, exactly spec_collapse(path).  The path lives at base+1 of an exact-size object
 * (the code forms p-1); base[0] is a guard byte that must never be written. */
#include "verif.h"
#ifdef KCOMP            /* family 2: KCOMP components of exactly 2 bytes each ('/' positions fixed, bytes symbolic over {'.','a','b'}):
                         * every component is "..", or an ordinary 2-byte name, independently - '..' at every position */
#define N (3 * KCOMP)
#endif
#define PS_MAXLEN (N + 1)
#include "path_spec.h"
#include COLLAPSE_INC

struct c18_in { unsigned char guard; unsigned char s[N]; };
V_INPUT(c18_in)

void h_collapse(void)
{
    in_init();
    char *base = V_MALLOC(N + 2);
    base[0] = (char)IN.guard;
    for(size_t i = 0; i < N; i++) {
        unsigned char c = IN.s[i];
#ifdef KCOMP
        if(i % 3 == 0) { V_ASSUME(c == '/'); c = '/'; }
        else V_ASSUME(c == '.' || c == 'a' || c == 'b');
#else
        V_ASSUME(c == '/' || c == '.' || c == 'a' || c == 'b');
#endif
#ifndef ALLOW_EMPTY
        if(i > 0) V_ASSUME(!(c == '/' && IN.s[i - 1] == '/'));     /* no empty component */
#endif
        base[1 + i] = (char)c;
    }
    V_ASSUME(IN.s[0] == '/');                                      /* absolute */
#ifndef ALLOW_EMPTY
    V_ASSUME(IN.s[N - 1] != '/');
#endif
    base[N + 1] = 0;

    char expect[N + 1];
    size_t el = spec_collapse(base + 1, N, expect);

    char *r = Ports_collapsePath(base + 1);

    V_ASSERT(base[0] == (char)IN.guard, "C18 the byte before the path is not written");
    V_ASSERT(base[N + 1] == 0, "C18 terminator preserved");
    V_ASSERT(r >= base + 1 && r <= base + 1 + N, "C18 result points into the same buffer");
    V_ASSERT(r == base + 1 + N - el, "C18 result is the suffix of the buffer that holds the collapsed path");
    for(size_t k = 0; k <= el; k++)
        V_ASSERT(r[k] == expect[k], "C18 result string == spec_collapse(path)");
    V_COVER(el == 0);
    V_COVER(el == N);
    V_COVER(el > 0 && el < N);
}
