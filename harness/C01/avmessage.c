/* C01: the argument-value-list constructor rtosc_avmessage produces the same bytes as the argument-array
 * constructor (whose output is compared with the spec in shape.c) for the same typed values; shapes without
 * array brackets (an arg-val list carries arrays as 'a' values, compared under C16). */
#include "verif.h"
#include <rtosc/rtosc.h>
#include <rtosc/arg-val.h>
#include "osc_spec.h"
#include RTOSC_C
#include ARGVAL_C
#include ARGVAL_ITR_C
#include ARGEXT_C
#include ARGVAL_MATH_C
#include SHAPE_H

#define CAPMAX (SH_NEED + 8)
struct in_c01 {
    uint64_t bits[SH_NPAY ? SH_NPAY : 1];
    uint8_t  blob[SH_NPAY ? SH_NPAY : 1][SH_MAXB ? SH_MAXB : 1];
    uint8_t  fill[CAPMAX];
    uint8_t  tail[8];
    uint32_t cap, k;
};
V_INPUT(in_c01)
#define A01(c,m) V_ASSERT(c,m)
#define A02(c,m) V_ASSERT(c,m)

void h_avmessage(void)
{
    in_init();
    rtosc_arg_t     args[SH_NPAY ? SH_NPAY : 1];
    struct spec_val v[SH_NPAY ? SH_NPAY : 1];
    rtosc_arg_val_t av[SH_NVALS ? SH_NVALS : 1];
    memset(args, 0, sizeof(args)); memset(v, 0, sizeof(v)); memset(av, 0, sizeof(av));
    SH_BUILD
    SH_AVBUILD

    uint8_t exp[CAPMAX];
    size_t need = spec_encode(exp, SH_NEED, SH_ADDR, SH_TAGS, v);
    size_t cap = IN.cap;
    V_ASSUME(cap <= CAPMAX);
    char *buf = V_MALLOC(cap);
    for(size_t j = 0; j < CAPMAX; j++) if(j < cap) buf[j] = (char)IN.fill[j];
    size_t r = rtosc_avmessage(buf, cap, SH_ADDR, SH_NVALS, av);
    size_t k = IN.k;
    if(cap < need) {
        A02(r == 0, "C02 arg-val constructor: does not fit => returns 0");
        if(k < cap) A02(buf[k] == 0, "C02 arg-val constructor: does not fit => buffer zero-filled");
    } else {
        A01(r == need, "C01 arg-val constructor returns the spec length");
        if(k < need) A01((uint8_t)buf[k] == exp[k], "C01 arg-val constructor bytes equal the OSC 1.0 encoding");
    }
    A02(rtosc_avmessage(NULL, 0, SH_ADDR, SH_NVALS, av) == need, "C02 arg-val constructor: NULL buffer returns the size needed");
}
