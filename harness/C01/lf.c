/* C01 loop-free, full-domain obligations (count as proof): the per-tag tables and the byte-order primitives of
 * src/rtosc.c against the spec, for ALL characters / ALL 2^32 and 2^64 payloads / all memory contents. */
#include "verif.h"
#include <rtosc/rtosc.h>
#include "osc_spec.h"
#include RTOSC_C

/* has_reserved == "carries a payload" for every char value */
void h_has_reserved(void)
{
    char c;
    V_ASSERT((has_reserved(c) != 0) == (spec_tag_class(c) > 0), "C01 payload-carrying tags are exactly i f s b h t d S c r m");
    V_COVER(has_reserved(c) != 0);
}

/* arg_size of every fixed-size tag is its OSC size, whatever the bytes are; valueless tags occupy nothing */
void h_arg_size_fixed(void)
{
    uint8_t mem[8]; char c;
    for(int k = 0; k < 8; k++) { uint8_t x; mem[k] = x; }
    int cl = spec_tag_class(c);
    V_ASSUME(cl == 0 || cl == 4 || cl == 8);
    V_ASSERT(arg_size(mem, c) == (unsigned)cl, "C01 fixed-size tags occupy 4 / 8 / 0 bytes");
    V_COVER(cl == 8);
}

/* string / blob extents as the spec defines them (string <= 6 chars in an 8+ byte window, blob length <= 8) */
void h_arg_size_var(void)
{
    uint8_t mem[16]; unsigned sl;
    for(int k = 0; k < 16; k++) { uint8_t x; mem[k] = x; }
    V_ASSUME(sl <= 10);
    for(unsigned k = 0; k < 11; k++) if(k < sl) V_ASSUME(mem[k] != 0);
    /* canonical OSC-string as every constructor writes it: terminator and padding bytes are NUL */
    uint8_t saved[4]; unsigned pe = (unsigned)spec_strsize(sl);
    for(unsigned k = 0; k < 4; k++) if(sl + k < pe) { saved[k] = mem[sl + k]; mem[sl + k] = 0; }
    V_ASSERT(arg_size(mem, 's') == spec_strsize(sl) && arg_size(mem, 'S') == spec_strsize(sl), "C01 string extent is strlen padded to 4 with at least one NUL");
    for(unsigned k = 0; k < 4; k++) if(sl + k < pe) mem[sl + k] = saved[k];
    uint32_t L = spec_be32(mem);
    V_ASSUME(L <= 12);     /* the extent stays inside the 16-byte window (the code forms the end pointer) */
    V_ASSERT(arg_size(mem, 'b') == 4 + spec_pad4(L), "C01 blob extent is 4 + length padded to 4");
}

/* big-endian primitives: all 2^32 / 2^64 values round-trip and match the spec byte order */
void h_endian(void)
{
    uint32_t a; uint64_t b; uint8_t m4[4], m8[8], s4[4], s8[8];
    emplace_uint32(m4, a); spec_put32(s4, a);
    emplace_uint64(m8, b); spec_put64(s8, b);
    for(int k = 0; k < 4; k++) V_ASSERT(m4[k] == s4[k], "C01 32 bit numbers are written big endian");
    for(int k = 0; k < 8; k++) V_ASSERT(m8[k] == s8[k], "C01 64 bit numbers are written big endian");
    V_ASSERT(extract_uint32(m4) == a && extract_uint64(m8) == b, "C01 extract inverts emplace");
}

/* extract_arg on arbitrary payload bytes == big-endian value, bit-identical, for every fixed-size tag */
void h_extract_arg(void)
{
    uint8_t mem[8]; char c;
    for(int k = 0; k < 8; k++) { uint8_t x; mem[k] = x; }
    int cl = spec_tag_class(c);
    V_ASSUME(cl == 4 || cl == 8 || c == 'T' || c == 'F');
    rtosc_arg_t a = extract_arg(mem, c);
    if(cl == 4 && c != 'm') V_ASSERT((uint32_t)a.i == spec_be32(mem), "C01 4-byte payload decodes big endian, bit-identical");
    if(c == 'm') V_ASSERT(a.m[0] == mem[0] && a.m[1] == mem[1] && a.m[2] == mem[2] && a.m[3] == mem[3], "C01 midi payload decodes in order");
    if(cl == 8) V_ASSERT(a.t == spec_be64(mem), "C01 8-byte payload decodes big endian, bit-identical");
    if(c == 'T') V_ASSERT(a.T == 1, "C01 T decodes to true");
    if(c == 'F') V_ASSERT(a.T == 0, "C01 F decodes to false");
    V_COVER(c == 'd');
}
