/* C08 (+ the bundle half of C02): one obligation per element-kind sequence (BN_K, BN_KINDS fixed by the
 * generator); element payload bytes, the 64-bit time tag, the capacity and the previous buffer content are
 * symbolic. Element kinds: KA "/a" ",i" <int>; KB "/ab" ",s" <fixed 3-char string>; KC "/" ","; KD bundle{KA};
 * KE bundle{KD,KC} (nesting depth 2); KF "/f" ",b" blob of 5 symbolic bytes; KG "/g" ",b" blob of 120 zero bytes (element size 132 = 0x84; needs -DELMAX=136). */
#include "verif.h"
#include <rtosc/rtosc.h>
#include "osc_spec.h"
#include RTOSC_C

#ifdef PROP_C02
#define A08(c,m) ((void)0)
#else
#define A08(c,m) V_ASSERT(c,m)
#endif
#ifdef PROP_C08
#define A02(c,m) ((void)0)
#else
#define A02(c,m) V_ASSERT(c,m)
#endif

enum { KA, KB, KC, KD, KE, KF, KG };
#ifndef ELMAX
#define ELMAX 64
#endif
static const int kinds[6] = { BN_KINDS };
#define BN_KMAX 5

struct in_c08 {
    uint64_t tt;
    uint32_t pay[BN_KMAX];
    uint8_t  bytes[BN_KMAX][8];
    uint64_t tt_in[BN_KMAX][2];
    uint8_t  fill[16 + BN_KMAX * (4 + ELMAX) + 8];
    uint32_t cap, k, e;
};
V_INPUT(in_c08)

static size_t build(int kind, uint8_t *out, int j)
{
    struct spec_val v[1]; memset(v, 0, sizeof v);
    switch(kind) {
    case KA: v[0].bits = IN.pay[j]; return spec_encode(out, ELMAX, "/a", "i", v);
    case KB: v[0].s = "x\x81z"; return spec_encode(out, ELMAX, "/ab", "s", v);   /* fixed string: symbolic string bytes make every offset symbolic */
    case KC: return spec_encode(out, ELMAX, "/", "", v);
    case KG: v[0].len = 120; v[0].data = 0; return spec_encode(out, ELMAX, "/g", "b", v);   /* 132 bytes: a size byte >= 0x80 */
    case KF: v[0].len = 5; v[0].data = IN.bytes[j]; return spec_encode(out, ELMAX, "/f", "b", v);
    case KD: { uint8_t in0[ELMAX]; size_t s0 = build(KA, in0, j);
               const uint8_t *el[1] = { in0 }; uint32_t sz[1] = { (uint32_t)s0 };
               return spec_bundle(out, ELMAX, IN.tt_in[j][0], 1, el, sz); }
    case KE: { uint8_t in0[ELMAX], in1[ELMAX]; size_t s0 = build(KD, in0, j), s1 = build(KC, in1, j);
               const uint8_t *el[2] = { in0, in1 }; uint32_t sz[2] = { (uint32_t)s0, (uint32_t)s1 };
               return spec_bundle(out, ELMAX, IN.tt_in[j][1], 2, el, sz); }
    }
    return 0;
}

void h_bundle(void)
{
    in_init();
    uint8_t *el[BN_KMAX]; uint32_t sz[BN_KMAX]; const uint8_t *cel[BN_KMAX];
    size_t need = 16;
    for(int j = 0; j < BN_K; j++) {
        uint8_t tmp[ELMAX];
        size_t s = build(kinds[j], tmp, j);
        /* exact-size element objects; an element that is itself a bundle is followed by 4 zero bytes, because
         * rtosc_bundle() measures it with rtosc_message_length(msg,-1), which scans for a zero size word
         * (known finding C08/exact-nested-element; -DBN_EXACT_NESTED drops the 4 bytes to exhibit it) */
        int isb = kinds[j] >= KD && kinds[j] <= KE;
#ifdef BN_EXACT_NESTED
        isb = 0;
#endif
        el[j] = V_MALLOC(s + (isb ? 4 : 0));
        for(size_t q = 0; q < s; q++) el[j][q] = tmp[q];
        if(isb) for(size_t q = s; q < s + 4; q++) el[j][q] = 0;
        sz[j] = (uint32_t)s; cel[j] = el[j];
        need += 4 + s;
        A08(rtosc_bundle_p((const char*)el[j]) == (kinds[j] >= KD && kinds[j] <= KE), "C08 bundle_p distinguishes messages from bundles");
        A08(rtosc_message_length((const char*)el[j], s) == s, "C08 element length equals what the length function reports");
    }
    const size_t CAPMAX = need + 8;
    uint8_t exp[16 + BN_KMAX * (4 + ELMAX) + 8];
    size_t n = spec_bundle(exp, sizeof exp, IN.tt, BN_K, cel, sz);
    V_ASSERT(n == need, "harness self-check: spec size");

#ifdef BN_CAP
    size_t cap = BN_CAP;          /* concrete capacity (C02 also enumerates capacities: code that feeds the capacity into
                                     the element scan would make every loop exit symbolic under a symbolic capacity) */
    V_ASSERT(cap <= CAPMAX, "harness self-check: capacity within the staging array");
#else
    size_t cap = IN.cap;
    V_ASSUME(cap <= CAPMAX);
#endif
    char *buf = V_MALLOC(cap);
#ifdef BN_CAP
    /* concrete capacity: the destination previously held a fixed non-zero pattern (symbolic stale bytes would make the
     * element scan of a faulty variant symbolic and undecidable; any non-zero stale size word shows a missing clear) */
    for(size_t q = 0; q < CAPMAX; q++) if(q < cap) buf[q] = (char)(0x5a + (q & 3));
#else
    for(size_t q = 0; q < CAPMAX; q++) if(q < cap) buf[q] = (char)IN.fill[q];
#endif
#if BN_K == 0
    size_t r = rtosc_bundle(buf, cap, IN.tt, 0);
#elif BN_K == 1
    size_t r = rtosc_bundle(buf, cap, IN.tt, 1, el[0]);
#elif BN_K == 2
    size_t r = rtosc_bundle(buf, cap, IN.tt, 2, el[0], el[1]);
#elif BN_K == 3
    size_t r = rtosc_bundle(buf, cap, IN.tt, 3, el[0], el[1], el[2]);
#elif BN_K == 4
    size_t r = rtosc_bundle(buf, cap, IN.tt, 4, el[0], el[1], el[2], el[3]);
#else
    size_t r = rtosc_bundle(buf, cap, IN.tt, 5, el[0], el[1], el[2], el[3], el[4]);
#endif
    size_t k = IN.k;
    if(cap < need) {
        A02(r == 0, "C02 bundle does not fit => returns 0");
        if(k < cap) A02(buf[k] == 0, "C02 bundle does not fit => buffer zero-filled");
    } else {
        A08(r == need, "C08 bundle constructor returns the spec length");
        if(k < need) A08((uint8_t)buf[k] == exp[k], "C08 bytes equal the spec bundle");
#ifdef BN_CAP
        /* the produced buffer, measured with its capacity as the bound (whatever it held before): same length, same count */
        A08(rtosc_message_length(buf, cap) == need, "C08 the length function reports the bundle's length on the produced buffer (bound = capacity)");
#endif
    }

#ifndef PROP_C02
    /* ---- decomposition of the spec bundle held in an exact-size object */
    uint8_t *b = V_MALLOC(need);
    for(size_t q = 0; q < need; q++) b[q] = exp[q];
    A08(rtosc_bundle_p((const char*)b) == 1, "C08 recognised as a bundle");
    A08(rtosc_bundle_timetag((const char*)b) == IN.tt, "C08 time tag preserved");
    A08(rtosc_bundle_elements((const char*)b, need) == BN_K, "C08 element count");
    A08(rtosc_message_length((const char*)b, need) == need, "C08 total length is what the length function reports");
    size_t off = 16;
    for(unsigned e = 0; e < BN_K; e++) {
        A08(rtosc_bundle_fetch((const char*)b, e) == (const char*)b + off + 4, "C08 fetch(i) points at element i");
        A08(rtosc_bundle_size((const char*)b, e) == sz[e], "C08 size(i) is the element's exact size");
        for(size_t q = 0; q < sz[e]; q++)
            A08(((const uint8_t*)rtosc_bundle_fetch((const char*)b, e))[q] == el[e][q], "C08 element bytes identical");
        off += 4 + sz[e];
    }
#endif
}
