/* native entry point for counterexample replay: calls the harness entry named by -DHARNESS_ENTRY */
void HARNESS_ENTRY(void);
int main(void) { HARNESS_ENTRY(); return 0; }
