/* C07 proof-mode harnesses: each calls one real function with unconstrained arguments; the contract in
 * contracts/rtosc_validate.h is enforced by goto-instrument --dfcc, callees are replaced by their
 * contracts, every loop carries a loop contract (contracts/rtosc_validate.loops, injected). */
#include "verif.h"
#include "rtosc_validate.h"
#include RTOSC_C

void h_deref(void)                 { unsigned pos; ring_t *ring; deref(pos, ring); }
void h_bundle_ring_length(void)    { ring_t *ring; bundle_ring_length(ring); }
void h_message_ring_length(void)   { ring_t *ring; rtosc_message_ring_length(ring); }
void h_message_length(void)        { const char *msg; size_t len; rtosc_message_length(msg, len); }
void h_valid_message_p(void)       { const char *msg; size_t len; rtosc_valid_message_p(msg, len); }
