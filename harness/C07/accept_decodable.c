/* C07 (bounded, exhaustive per length): for EVERY buffer of exactly N bytes,
 *   - rtosc_valid_message_p / rtosc_message_length read only inside the N bytes (the buffer is an
 *     exact-size heap object, so any access outside is a CBMC pointer failure / an ASan trap),
 *     and report 0 or a length <= N;
 *   - accepted  =>  the independent reference decoder (spec/osc_spec.h) decodes the buffer, and every
 *     accessor stays inside the N bytes and returns exactly what the reference decoder returns. */
#include "verif.h"
#include <rtosc/rtosc.h>
#include "osc_spec.h"
#include RTOSC_C

#ifndef N
#error "define N"
#endif
struct in_c07 { uint8_t buf[N ? N : 1]; uint32_t idx; };
V_INPUT(in_c07)

void h_accept_decodable(void)
{
    in_init();
    uint8_t *b = V_MALLOC(N);
    for(unsigned k = 0; k < N; k++) b[k] = IN.buf[k];
#ifdef PREFIX_BYTES
    /* structured variant: address and type tag string fixed by the generator, the payload region fully symbolic */
    { static const uint8_t pre[] = { PREFIX_BYTES }; for(unsigned k = 0; k < sizeof pre && k < N; k++) b[k] = pre[k]; }
#endif

    size_t L = rtosc_message_length((const char*)b, N);
    V_ASSERT(L == 0 || L <= N, "C07 message_length reports 0 or at most n");

    bool ok = rtosc_valid_message_p((const char*)b, N);
    if(!ok) return;
    V_COVER(ok);

    struct spec_msg m;
    spec_decode(b, N, IN.idx, &m);
    V_ASSERT(m.ok, "C07 accepted buffer is decodable by the reference decoder");
    V_ASSERT(m.total <= N, "C07 decoded extent inside n");
    V_ASSERT(m.total == N, "C07 accepted => the reference decoder's message is exactly the n bytes (same extents)");
    V_ASSERT(L == N, "C07 accepted => message_length == n");

    const char *as = rtosc_argument_string((const char*)b);
    V_ASSERT(as == (const char*)b + m.tags_off, "C07 argument_string points at the tags");
    V_ASSERT(rtosc_narguments((const char*)b) == m.nvals, "C07 narguments == number of values");

    /* one arbitrary argument index decides all of them */
    unsigned i = IN.idx;
    V_ASSERT((i < m.nvals) == (m.have_w != 0), "spec decoder self-consistency");
    if(i < m.nvals) {
        const struct spec_arg *ar = &m.w;
        V_ASSERT(rtosc_type((const char*)b, i) == ar->type, "C07 type(i) equals reference");
        rtosc_arg_t v = rtosc_argument((const char*)b, i);
        int cl = spec_tag_class(ar->type);
        if(cl == 4 && ar->type != 'm')
            V_ASSERT((uint32_t)v.i == (uint32_t)ar->bits, "C07 4-byte argument equals reference");
        if(ar->type == 'm')
            V_ASSERT(v.m[0] == b[ar->off] && v.m[1] == b[ar->off+1] && v.m[2] == b[ar->off+2] && v.m[3] == b[ar->off+3],
                     "C07 midi argument equals reference");
        if(cl == 8)
            V_ASSERT(v.t == ar->bits, "C07 8-byte argument equals reference");
        if(cl == 1)
            V_ASSERT(v.s == (const char*)b + ar->off, "C07 string argument points at the reference payload");
        if(cl == 2) {
            V_ASSERT((uint32_t)v.b.len == ar->len, "C07 blob length equals reference");
            V_ASSERT(v.b.data == b + ar->off + 4, "C07 blob data points at the reference payload");
        }
        if(ar->type == 'T') V_ASSERT(v.T == 1, "C07 T is true");
        if(ar->type == 'F') V_ASSERT(v.T == 0, "C07 F is false");
    }

    /* the iterator yields the same sequence (checked at the arbitrary index i), and exactly nvals values */
    rtosc_arg_itr_t it = rtosc_itr_begin((const char*)b);
    unsigned cnt = 0;
    while(!rtosc_itr_end(it)) {
        V_ASSERT(cnt < m.nvals, "C07 iterator yields no more than nvals values");
        const uint8_t *vp = it.value_pos;
        rtosc_arg_val_t av = rtosc_itr_next(&it);
        if(cnt == i) {
            const struct spec_arg *ar = &m.w;
            V_ASSERT(av.type == ar->type, "C07 iterator type equals reference");
            int cl = spec_tag_class(ar->type);
            if(cl > 0) V_ASSERT(vp == b + ar->off, "C07 iterator payload position equals reference");
            if(cl == 4 && ar->type != 'm') V_ASSERT((uint32_t)av.val.i == (uint32_t)ar->bits, "C07 iterator 4-byte value");
            if(cl == 8) V_ASSERT(av.val.t == ar->bits, "C07 iterator 8-byte value");
            if(cl == 1) V_ASSERT(av.val.s == (const char*)b + ar->off, "C07 iterator string");
            if(cl == 2) V_ASSERT((uint32_t)av.val.b.len == ar->len && av.val.b.data == b + ar->off + 4, "C07 iterator blob");
        }
        cnt++;
    }
    V_ASSERT(cnt == m.nvals, "C07 iterator yields exactly nvals values");
}
