/* Ghost view of a port-metadata block (C17), written from the property statement:
 *
 *   "For any metadata block made of ':key' entries with optional '=value' (as the rMap/rProp/rDoc/rOptions
 *    macros produce), iterating a port's metadata yields exactly those key/value pairs in order - values may
 *    contain ':' and '=' - lookup by key returns the value of the first entry with that key (nothing if the
 *    key is absent or has no value), find reports presence, and the reported length equals the block's byte
 *    length including its terminator."
 *
 * The macros (port-sugar.h: rProp = ":" key "\0", rMap = ":" key "\0=" value "\0", the string literal adds one
 * more NUL) give the concrete syntax:
 *
 *      block  ::=  entry{k}  NUL                      k >= 1
 *      entry  ::=  ':' key NUL  [ '=' value NUL ]
 *
 * The ghost view names, for entry j, the offsets inside the block of
 *      key_off[j]  first byte of the key            (block[key_off[j]-1] == ':')
 *      val_off[j]  first byte of the value, or -1   (block[val_off[j]-1] == '=')
 *      end_off[j]  the NUL that ends the entry      (of the value if there is one, else of the key)
 * and len = end_off[k-1] + 2 = the byte length of the block including its terminator.
 *
 * wf_block: keys are non-empty and contain no NUL; values contain no NUL and are arbitrary otherwise (':' and
 * '=' allowed anywhere, empty allowed). Domain restriction (MS_KEY_MAY_START_WITH_COLON not defined): a key does
 * not START with ':' - "::x" cannot be told from an empty key followed by ":x" by any reader that finds entries
 * by "NUL then ':'", see ASSUMPTIONS of props/C17.py.
 * Nothing here looks at the implementation. */
#ifndef META_SPEC_H
#define META_SPEC_H
#include <stddef.h>
#include <stdbool.h>

#ifndef MS_MAXK
#define MS_MAXK 8
#endif

struct meta_view {
    int k;                       /* number of entries */
    int len;                     /* block length in bytes including the terminating NUL */
    int key_off[MS_MAXK];
    int val_off[MS_MAXK];        /* -1: entry has no value */
    int end_off[MS_MAXK];
};

/* offset of the NUL that ends key j */
static int ms_key_end(const struct meta_view *v, int j)
{
    return v->val_off[j] < 0 ? v->end_off[j] : v->val_off[j] - 2;
}

/* does the view describe the bytes block[0..len) and are they a well-formed block? */
static bool wf_block(const unsigned char *block, int len, const struct meta_view *v)
{
    if(v->k < 1 || v->k > MS_MAXK || v->len != len)
        return false;
    int pos = 0;                                         /* where entry j starts */
    for(int j = 0; j < v->k; j++) {
        int ko = v->key_off[j], ke = ms_key_end(v, j), vo = v->val_off[j], eo = v->end_off[j];
        if(pos >= len || block[pos] != ':' || ko != pos + 1)
            return false;
        if(ke <= ko || ke >= len)                        /* key non-empty, inside the block */
            return false;
        for(int i = ko; i < ke; i++)
            if(block[i] == 0)
                return false;
#ifndef MS_KEY_MAY_START_WITH_COLON
        if(block[ko] == ':')
            return false;
#endif
        if(block[ke] != 0)
            return false;
        if(vo >= 0) {
            if(ke + 1 >= len || block[ke + 1] != '=' || vo != ke + 2 || eo < vo || eo >= len)
                return false;
            for(int i = vo; i < eo; i++)
                if(block[i] == 0)
                    return false;
            if(block[eo] != 0)
                return false;
        }
        pos = eo + 1;
    }
    return pos == len - 1 && block[pos] == 0;           /* exactly one terminating NUL after the last entry */
}

/* NUL-terminated string equality (own loop: the oracle does not share strcmp with the code under test) */
static bool ms_streq(const char *a, const char *b)
{
    size_t i = 0;
    while(a[i] != 0 && a[i] == b[i])
        i++;
    return a[i] == b[i];
}

/* index of the FIRST entry whose key equals `key`, or -1 */
static int spec_first(const unsigned char *block, const struct meta_view *v, const char *key)
{
    for(int j = 0; j < v->k; j++)
        if(ms_streq((const char *)block + v->key_off[j], key))
            return j;
    return -1;
}

/* lookup by key: offset of the value of the first entry with that key; -1 if the key is absent or has no value */
static int spec_lookup(const unsigned char *block, const struct meta_view *v, const char *key)
{
    int j = spec_first(block, v, key);
    return j < 0 ? -1 : v->val_off[j];
}

/* the view of the block that a sequence of (key, value-or-NULL) pairs denotes - used to state what the macros
 * rMap/rProp/rDoc/rOptions NAME: returns false if the pairs do not fit MS_MAXK */
static bool spec_view_of_pairs(const char *const *keys, const char *const *vals, int k, struct meta_view *v)
{
    if(k < 1 || k > MS_MAXK)
        return false;
    v->k = k;
    int pos = 0;
    for(int j = 0; j < k; j++) {
        int kl = 0;
        while(keys[j][kl]) kl++;
        v->key_off[j] = pos + 1;
        int ke = pos + 1 + kl;
        if(vals[j]) {
            int vl = 0;
            while(vals[j][vl]) vl++;
            v->val_off[j] = ke + 2;
            v->end_off[j] = ke + 2 + vl;
        } else {
            v->val_off[j] = -1;
            v->end_off[j] = ke;
        }
        pos = v->end_off[j] + 1;
    }
    v->len = pos + 1;
    return true;
}
#endif
