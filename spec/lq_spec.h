/* C19 - abstract view of the MIDI-learn queue of an automation manager and the transitions the property
 * statement demands. Written from the statement of C19 in /verif/properties.jsonl, NOT from automations.cpp:
 *
 *   "Slots that asked for MIDI learn are bound, one per previously unbound controller, in the order in which they
 *    asked, regardless of unrelated slots being created or cleared in between, and once bound a controller drives
 *    exactly its slot."
 *
 * Concrete state the view is taken from (plain arrays, independent of the code's structs):
 *     rank[i]  per-slot learn rank  (AutomationSlot::learning:  1 = next to be bound, -1 = not waiting)
 *     k        queue length         (AutomationMgr::learn_queue_len)
 *     cc[i]    bound MIDI CC id or -1,  nrpn[i]  bound NRPN id or -1
 *
 * Abstract view: queue(state) = the waiting slots in the order in which they asked = ordered by rank.
 *
 * Representation invariant LQ (inductive; base case = freshly constructed manager: k = 0, every rank -1):
 *     k >= 0;  every rank is -1 or in 1..k;  the ranks 1..k are held exactly once each.
 * UNIQ: no two slots are bound to the same controller ("a controller drives exactly its slot").
 * NRPN_RANGE: the four NRPN registers are -1 (unknown) or a 7 bit MIDI data byte.
 *
 * Everything is loop-bounded by LQ_MAXN, so CBMC unwinds it completely. */
#ifndef LQ_SPEC_H
#define LQ_SPEC_H
#include <stdbool.h>

#ifndef LQ_MAXN
#define LQ_MAXN 6
#endif

struct lq_view {            /* the abstract queue: q[0] asked first; q[len..] = -1 */
    int len;
    int q[LQ_MAXN];
    bool ok;                /* false when the concrete state does not represent a queue (LQ violated) */
};

/* LQ(rank[0..n-1], k) */
static inline bool lq_inv(const int *rank, int n, int k)
{
    if(k < 0 || k > n) return false;
    int waiting = 0;
    for(int i = 0; i < LQ_MAXN; i++) {
        if(i >= n) break;
        if(rank[i] == -1) continue;
        if(rank[i] < 1 || rank[i] > k) return false;
        waiting++;
        for(int j = 0; j < LQ_MAXN; j++) {
            if(j >= i) break;
            if(rank[j] == rank[i]) return false;      /* a rank held twice */
        }
    }
    return waiting == k;     /* k distinct values out of 1..k: each exactly once */
}

/* no two slots bound to the same controller id (-1 = unbound) */
static inline bool lq_uniq(const int *id, int n)
{
    for(int i = 0; i < LQ_MAXN; i++) {
        if(i >= n) break;
        for(int j = 0; j < LQ_MAXN; j++) {
            if(j >= i) break;
            if(id[i] != -1 && id[i] == id[j]) return false;
        }
    }
    return true;
}

static inline bool lq_nrpn_reg_ok(int r) { return r >= -1 && r <= 127; }

/* abstraction function: concrete ranks -> queue of slot numbers */
static inline struct lq_view lq_abstract(const int *rank, int n, int k)
{
    struct lq_view v;
    v.ok = lq_inv(rank, n, k);
    v.len = v.ok ? k : 0;
    for(int r = 0; r < LQ_MAXN; r++) {
        v.q[r] = -1;
        if(!v.ok || r >= k) continue;
        for(int i = 0; i < LQ_MAXN; i++) {
            if(i >= n) break;
            if(rank[i] == r + 1) v.q[r] = i;
        }
    }
    return v;
}

static inline bool lq_view_eq(const struct lq_view *a, const struct lq_view *b)
{
    if(!a->ok || !b->ok || a->len != b->len) return false;
    for(int r = 0; r < LQ_MAXN; r++)
        if(a->q[r] != b->q[r]) return false;
    return true;
}

static inline bool lq_contains(const struct lq_view *a, int slot)
{
    for(int r = 0; r < LQ_MAXN; r++)
        if(r < a->len && a->q[r] == slot) return true;
    return false;
}

/* ---- the abstract transitions demanded by the statement ------------------------------------------------ */

/* "regardless of unrelated slots being ... cleared in between": clearing slot i removes i from the queue (if it
 * was waiting) and keeps the order of everybody else. */
static inline struct lq_view lq_remove(const struct lq_view *a, int slot)
{
    struct lq_view v; v.ok = a->ok; v.len = 0;
    for(int r = 0; r < LQ_MAXN; r++) v.q[r] = -1;
    for(int r = 0; r < LQ_MAXN; r++)
        if(r < a->len && a->q[r] != slot) v.q[v.len++] = a->q[r];
    return v;
}

/* "bound ... in the order in which they asked": an unbound controller is given to the head; the rest moves up */
static inline struct lq_view lq_pop(const struct lq_view *a)
{
    struct lq_view v; v.ok = a->ok; v.len = a->len > 0 ? a->len - 1 : 0;
    for(int r = 0; r < LQ_MAXN; r++)
        v.q[r] = (r + 1 < a->len && r + 1 < LQ_MAXN) ? a->q[r + 1] : -1;
    return v;
}

/* a slot that asks for MIDI learn goes to the end of the queue */
static inline struct lq_view lq_append(const struct lq_view *a, int slot)
{
    struct lq_view v = *a;
    if(v.len < LQ_MAXN) v.q[v.len++] = slot; else v.ok = false;
    return v;
}

/* ---- which controller does one MIDI controller message identify? (MIDI 1.0: CC 99/98 select an NRPN, CC 6/38
 * carry its 14 bit value; an NRPN is identified once parameter MSB+LSB and data MSB+LSB are all known) -------- */
struct lq_nrpn { int parhi, parlo, valhi, vallo; };
enum lq_ctl_kind { LQ_CTL_NONE = 0, LQ_CTL_CC = 1, LQ_CTL_NRPN = 2 };
struct lq_ctl { enum lq_ctl_kind kind; int id; };

static inline bool lq_is_nrpn_cc(int cc) { return cc == 99 || cc == 98 || cc == 6 || cc == 38; }

static inline struct lq_nrpn lq_nrpn_step(struct lq_nrpn s, int cc, int val)
{
    if(cc == 99)      { s.parhi = val; s.valhi = -1; s.vallo = -1; }
    else if(cc == 98) { s.parlo = val; s.valhi = -1; s.vallo = -1; }
    else if(cc == 6)  { if(s.parhi >= 0 && s.parlo >= 0) s.valhi = val; }
    else if(cc == 38) { if(s.parhi >= 0 && s.parlo >= 0) s.vallo = val; }
    return s;
}

/* controller identified by message (channel, cc, val) given the NRPN registers AFTER the message */
static inline struct lq_ctl lq_controller(struct lq_nrpn after, int channel, int cc)
{
    struct lq_ctl c;
    if(!lq_is_nrpn_cc(cc)) { c.kind = LQ_CTL_CC; c.id = channel * 128 + cc; return c; }
    if(after.parhi >= 0 && after.parlo >= 0 && after.valhi >= 0 && after.vallo >= 0) {
        c.kind = LQ_CTL_NRPN; c.id = after.parhi * 128 + after.parlo; return c;
    }
    c.kind = LQ_CTL_NONE; c.id = -1;      /* part of an NRPN sequence: no controller identified yet */
    return c;
}

/* ---- emitted value, linear scale: "at the default gain and offset, maps slot values 0..1 linearly onto min..max" */
static inline float lq_linear(float mn, float mx, float x) { return mn + x * (mx - mn); }

#endif
