/* Executable specification of the order on argument values and argument lists, written from the
 * statement of property C16 (and DESIGN.md "### C16") -- NOT from rtosc's code.
 *
 *   - values of different type are ordered by their type character;
 *   - numbers (i c r h f d) are ordered numerically (NaN is outside the domain);
 *   - time tags: 1 ("immediately") comes before every other time tag, the others numerically;
 *   - MIDI: the four bytes in order, as unsigned bytes;
 *   - T F N I carry no value: equal to themselves;
 *   - strings (s S): lexicographically over unsigned bytes, a proper prefix first; the NULL string
 *     (which the API allows) is equal to itself and comes before every other string;
 *   - blobs: bytewise over unsigned bytes, a proper prefix first;
 *   - arrays: boolean arrays (element type T or F) are ONE type, arrays of different element type are
 *     ordered by element type character, otherwise lexicographically over the elements, a proper
 *     prefix first;
 *   - lists: lexicographically over the elements of their EXPANSION (a range `N x v` stands for
 *     v,...,v; a range with delta d for v, v+d, ..., v+(N-1)d), a proper prefix first.
 *   - spec_sign(l,r) == 0 is what "equal" means.
 *
 * The specification has its own value type (struct cs_val): the harness builds the rtosc_arg_val_t
 * representation (with '-' range blocks, packed array headers, ...) and, independently, the expanded
 * list of cs_val; the spec never looks at rtosc's representation.
 * No recursion (CBMC): array elements are scalars/strings/blobs, nested arrays are outside the bound. */
#ifndef CMP_SPEC_H
#define CMP_SPEC_H
#include <stdint.h>
#include <stddef.h>

struct cs_val {
    char     type;          /* OSC type character; 'a' for arrays */
    int64_t  num;           /* i c r h : the number */
    double   real;          /* f d     : the number (a float is exactly representable as double) */
    uint64_t tt;            /* t       : the time tag */
    uint8_t  m[4];          /* m */
    const uint8_t *bytes;   /* s S b   : content; NULL together with len < 0 is the NULL string */
    int32_t  len;           /* s S b   : number of content bytes (strings: without the terminator), -1: NULL string */
    char     atype;         /* a       : element type */
    int32_t  alen;          /* a       : number of elements */
    const struct cs_val *elems; /* a   : the elements (already expanded) */
};

static inline int cs_sgn(int x) { return x < 0 ? -1 : (x > 0 ? 1 : 0); }

/* bytewise, unsigned, proper prefix first */
static inline int cs_bytes_sign(const uint8_t *l, int32_t ll, const uint8_t *r, int32_t rl)
{
    for(int32_t k = 0; k < ll && k < rl; k++) {
        if(l[k] < r[k]) return -1;
        if(l[k] > r[k]) return 1;
    }
    return ll < rl ? -1 : (ll > rl ? 1 : 0);
}

/* every type but 'a' */
static inline int cs_sign_noarr(const struct cs_val *l, const struct cs_val *r)
{
    if(l->type != r->type)
        return l->type < r->type ? -1 : 1;
    switch(l->type) {
        case 'i': case 'c': case 'r': case 'h':
            return l->num < r->num ? -1 : (l->num > r->num ? 1 : 0);
        case 'f': case 'd':
            return l->real < r->real ? -1 : (l->real > r->real ? 1 : 0);
        case 't':
            if(l->tt == r->tt) return 0;
            if(l->tt == 1) return -1;               /* immediately before every other time tag */
            if(r->tt == 1) return 1;
            return l->tt < r->tt ? -1 : 1;
        case 'm':
            return cs_bytes_sign(l->m, 4, r->m, 4);
        case 'T': case 'F': case 'N': case 'I':
            return 0;
        case 's': case 'S':
            if(l->len < 0 || r->len < 0)            /* NULL string: equal to itself, before all others */
                return (l->len < 0 && r->len < 0) ? 0 : (l->len < 0 ? -1 : 1);
            return cs_bytes_sign(l->bytes, l->len, r->bytes, r->len);
        case 'b':
            return cs_bytes_sign(l->bytes, l->len, r->bytes, r->len);
    }
    return 0;
}

/* lexicographic over (expanded) elements, proper prefix first; elements are not arrays */
static inline int cs_sign_flat(const struct cs_val *l, int32_t nl, const struct cs_val *r, int32_t nr)
{
    for(int32_t k = 0; k < nl && k < nr; k++) {
        int s = cs_sign_noarr(&l[k], &r[k]);
        if(s) return s;
    }
    return nl < nr ? -1 : (nl > nr ? 1 : 0);
}

static inline char cs_arr_class(char t) { return t == 'F' ? 'T' : t; }   /* boolean arrays are one type */

/* one value against one value */
static inline int spec_sign(const struct cs_val *l, const struct cs_val *r)
{
    if(l->type == 'a' && r->type == 'a') {
        char lc = cs_arr_class(l->atype), rc = cs_arr_class(r->atype);
        if(lc != rc) return lc < rc ? -1 : 1;
        return cs_sign_flat(l->elems, l->alen, r->elems, r->alen);
    }
    return cs_sign_noarr(l, r);
}

/* list against list (both expanded) */
static inline int spec_sign_list(const struct cs_val *l, int32_t nl, const struct cs_val *r, int32_t nr)
{
    for(int32_t k = 0; k < nl && k < nr; k++) {
        int s = spec_sign(&l[k], &r[k]);
        if(s) return s;
    }
    return nl < nr ? -1 : (nl > nr ? 1 : 0);
}

/* the order laws, stated once; used on the spec itself (and on the code's results) */
static inline int spec_law_antisym(int lr, int rl) { return cs_sgn(lr) == -cs_sgn(rl); }
static inline int spec_law_trans(int ab, int bc, int ac)
{
    /* a<=b and b<=c  =>  a<=c, strict if one of them is strict; likewise for >= */
    if(ab <= 0 && bc <= 0) return (ab < 0 || bc < 0) ? ac < 0 : ac == 0;
    if(ab >= 0 && bc >= 0) return (ab > 0 || bc > 0) ? ac > 0 : ac == 0;
    return 1;
}
#endif
