/* Executable specification of the OSC 1.0 message wire format, written from the property
 * statements (C01, C02, C07, C08) and the OSC 1.0 specification -- NOT from rtosc's code.
 *
 *   message  := OSC-string(address) OSC-string("," tags) payload(tag_1) ... payload(tag_k)
 *   OSC-string(s) := bytes of s, then 1..4 NUL so that the total is a multiple of 4
 *   payload: i f c r m -> 4 bytes big endian (m: the 4 bytes in order)
 *            h t d     -> 8 bytes big endian
 *            s S       -> OSC-string
 *            b         -> be32(len) data[len] NUL-padded to a multiple of 4
 *            T F N I [ ] -> nothing
 */
#ifndef OSC_SPEC_H
#define OSC_SPEC_H
#include <stdint.h>
#include <stddef.h>

#ifndef SPEC_MAXARGS
#define SPEC_MAXARGS 48
#endif

static inline size_t spec_pad4(size_t n) { return (n + 3u) & ~(size_t)3u; }
/* size of OSC-string holding len bytes: at least one NUL */
static inline size_t spec_strsize(size_t len) { return (len / 4u + 1u) * 4u; }

static inline int spec_tag_is_bracket(char c) { return c == '[' || c == ']'; }
/* -1: not a known tag; 0: no payload; 4/8: fixed payload; 1: string; 2: blob */
static inline int spec_tag_class(char c)
{
    switch(c) {
        case 'i': case 'f': case 'c': case 'r': case 'm': return 4;
        case 'h': case 't': case 'd': return 8;
        case 's': case 'S': return 1;
        case 'b': return 2;
        case 'T': case 'F': case 'N': case 'I': case '[': case ']': return 0;
    }
    return -1;
}

static inline uint32_t spec_be32(const uint8_t *p)
{
    return ((uint32_t)p[0] << 24) | ((uint32_t)p[1] << 16) | ((uint32_t)p[2] << 8) | (uint32_t)p[3];
}
static inline uint64_t spec_be64(const uint8_t *p)
{
    return ((uint64_t)spec_be32(p) << 32) | (uint64_t)spec_be32(p + 4);
}
static inline void spec_put32(uint8_t *p, uint32_t v)
{
    p[0] = (uint8_t)(v >> 24); p[1] = (uint8_t)(v >> 16); p[2] = (uint8_t)(v >> 8); p[3] = (uint8_t)v;
}
static inline void spec_put64(uint8_t *p, uint64_t v)
{
    spec_put32(p, (uint32_t)(v >> 32)); spec_put32(p + 4, (uint32_t)v);
}

/* ---------------------------------------------------------------- reference decoder (C07)
 * Lenient and structural: decodes what the bytes say, checks every extent against n, ignores the
 * *content* of padding (the property compares decoded values, not canonicity), and gives unknown
 * tag characters no payload (OSC 1.0 leaves them to the implementation). */
struct spec_arg {
    char     type;
    uint32_t off;       /* offset of the payload in the buffer (strings: first char; blobs: length field) */
    uint32_t size;      /* padded extent of the payload */
    uint64_t bits;      /* 4/8-byte payload as big-endian number */
    uint32_t len;       /* blob: declared length; string: strlen */
};
struct spec_msg {
    int      ok;
    uint32_t addr_len;  /* strlen(address) */
    uint32_t tags_off;  /* offset of the first tag character (after the ',') */
    uint32_t ntags;     /* number of tag characters incl. brackets */
    uint32_t nvals;     /* number of non-bracket tags */
    uint32_t total;     /* decoded message length */
    int      have_w;    /* want < nvals */
    struct spec_arg w;  /* the want-th value (one arbitrary index decides all of them) */
};

/* decodes the whole buffer; details are returned for the value with index `want` only, so that a
 * verifier needs no symbolic array indexing: `want` is left arbitrary by the caller. */
static inline void spec_decode(const uint8_t *b, size_t n, uint32_t want, struct spec_msg *m)
{
    m->ok = 0; m->nvals = 0; m->ntags = 0; m->have_w = 0; m->total = 0; m->addr_len = 0; m->tags_off = 0;
    m->w.type = 0; m->w.off = 0; m->w.size = 0; m->w.bits = 0; m->w.len = 0;
    size_t a = 0;
    while(a < n && b[a]) a++;
    if(a >= n) return;                       /* no terminator */
    m->addr_len = (uint32_t)a;
    size_t c = spec_strsize(a);              /* start of the type tag string */
    if(c >= n || b[c] != ',') return;
    size_t t = c + 1;
    while(t < n && b[t]) t++;
    if(t >= n) return;
    m->tags_off = (uint32_t)(c + 1);
    m->ntags = (uint32_t)(t - (c + 1));
    size_t pos = c + spec_strsize(t - c);    /* first payload byte */
    if(pos > n) return;
    uint32_t nv = 0;
    for(size_t k = c + 1; k < t; k++) {
        char tag = (char)b[k];
        if(spec_tag_is_bracket(tag)) continue;
        struct spec_arg ar;
        ar.type = tag; ar.off = (uint32_t)pos; ar.size = 0; ar.bits = 0; ar.len = 0;
        int cl = spec_tag_class(tag);
        if(cl == 4) {
            if(n - pos < 4) return;
            ar.bits = spec_be32(b + pos); ar.size = 4;
        } else if(cl == 8) {
            if(n - pos < 8) return;
            ar.bits = spec_be64(b + pos); ar.size = 8;
        } else if(cl == 1) {
            size_t e = pos;
            while(e < n && b[e]) e++;
            if(e >= n) return;
            ar.len = (uint32_t)(e - pos);
            ar.size = (uint32_t)spec_strsize(e - pos);
            if(n - pos < ar.size) return;
        } else if(cl == 2) {
            if(n - pos < 4) return;
            uint32_t L = spec_be32(b + pos);
            if((size_t)L > n - pos - 4) return;
            size_t ext = 4 + spec_pad4(L);
            if(ext > n - pos) return;
            ar.len = L; ar.size = (uint32_t)ext;
        }
        if(nv == want) { m->w = ar; m->have_w = 1; }
        pos += ar.size;
        nv++;
    }
    m->nvals = nv;
    m->total = (uint32_t)pos;
    m->ok = 1;
}

/* ---------------------------------------------------------------- reference encoder (C01/C02)
 * spec_encode writes the encoding into out (capacity cap) and returns the length; if out==NULL
 * only the length is computed. v[] has one entry per payload-carrying tag, in order (the
 * convention of the argument-array constructor). */
struct spec_val {
    uint64_t bits;            /* 4/8-byte payloads (low 32 bits for 4-byte ones; m: bytes as big endian) */
    const char *s;            /* s S */
    const uint8_t *data;      /* b (may be NULL: bytes stay zero) */
    uint32_t len;             /* b */
};

static inline size_t spec_encode(uint8_t *out, size_t cap, const char *addr, const char *tags,
                                 const struct spec_val *v)
{
    size_t pos = 0, k;
    size_t al = 0; while(addr[al]) al++;
    size_t tl = 0; while(tags[tl]) tl++;
#define SPEC_PUT(i, byte) do { if(out && (i) < cap) out[(i)] = (uint8_t)(byte); } while(0)
    for(k = 0; k < al; k++) SPEC_PUT(pos + k, addr[k]);
    for(k = al; k < spec_strsize(al); k++) SPEC_PUT(pos + k, 0);
    pos += spec_strsize(al);
    SPEC_PUT(pos, ',');
    for(k = 0; k < tl; k++) SPEC_PUT(pos + 1 + k, tags[k]);
    for(k = tl + 1; k < spec_strsize(tl + 1); k++) SPEC_PUT(pos + k, 0);
    pos += spec_strsize(tl + 1);
    size_t vi = 0;
    for(size_t ti = 0; ti < tl; ti++) {
        int cl = spec_tag_class(tags[ti]);
        if(cl <= 0) continue;            /* T F N I [ ] carry no payload and take no slot in v[] */
        const struct spec_val *x = &v[vi++];
        if(cl == 4) {
            for(k = 0; k < 4; k++) SPEC_PUT(pos + k, (x->bits >> (8 * (3 - k))) & 0xff);
            pos += 4;
        } else if(cl == 8) {
            for(k = 0; k < 8; k++) SPEC_PUT(pos + k, (x->bits >> (8 * (7 - k))) & 0xff);
            pos += 8;
        } else if(cl == 1) {
            size_t sl = 0; while(x->s[sl]) sl++;
            for(k = 0; k < sl; k++) SPEC_PUT(pos + k, x->s[k]);
            for(k = sl; k < spec_strsize(sl); k++) SPEC_PUT(pos + k, 0);
            pos += spec_strsize(sl);
        } else {
            for(k = 0; k < 4; k++) SPEC_PUT(pos + k, (x->len >> (8 * (3 - k))) & 0xff);
            for(k = 0; k < x->len; k++) SPEC_PUT(pos + 4 + k, x->data ? x->data[k] : 0);
            for(k = x->len; k < spec_pad4(x->len); k++) SPEC_PUT(pos + 4 + k, 0);
            pos += 4 + spec_pad4(x->len);
        }
    }
#undef SPEC_PUT
    return pos;
}

/* number of values (non-bracket tags) in a tag string */
static inline unsigned spec_nvalues(const char *tags)
{
    unsigned n = 0;
    for(; *tags; tags++) if(!spec_tag_is_bracket(*tags)) n++;
    return n;
}

/* bundle := "#bundle\0" be64(timetag) { be32(size_i) element_i } */
static inline size_t spec_bundle(uint8_t *out, size_t cap, uint64_t tt, unsigned k,
                                 const uint8_t *const *elm, const uint32_t *size)
{
    static const char hdr[8] = {'#','b','u','n','d','l','e',0};
    size_t pos = 0, j;
#define SPEC_PUT(i, byte) do { if(out && (i) < cap) out[(i)] = (uint8_t)(byte); } while(0)
    for(j = 0; j < 8; j++) SPEC_PUT(j, hdr[j]);
    for(j = 0; j < 8; j++) SPEC_PUT(8 + j, (tt >> (8 * (7 - j))) & 0xff);
    pos = 16;
    for(unsigned e = 0; e < k; e++) {
        for(j = 0; j < 4; j++) SPEC_PUT(pos + j, (size[e] >> (8 * (3 - j))) & 0xff);
        for(j = 0; j < size[e]; j++) SPEC_PUT(pos + 4 + j, elm[e][j]);
        pos += 4 + size[e];
    }
#undef SPEC_PUT
    return pos;
}
#endif
