/* Executable specification for property C14, written from the property STATEMENT (properties.jsonl),
 * not from port-sugar.h.  Valid C and C++ (the C14 harness is compiled by CBMC's C++ front end).
 *
 *   "the value stored afterwards is the incoming value clamped to the port's declared minimum and
 *    maximum (strings truncated to the declared length, option symbols translated to their index) ...
 *    exactly one undo event carrying the address, the true previous value and the new value is emitted
 *    if and only if the stored value changed."
 *
 * A bound that is not declared does not constrain.  Bounds are taken in the storage type of the port
 * (the declared decimal text converted to that type); declared ranges are non-empty (min <= max).       */
#ifndef CLAMP_SPEC_H
#define CLAMP_SPEC_H

static inline int spec_clamp_i(int v, int has_min, int mn, int has_max, int mx)
{
    if(has_min && v < mn) return mn;
    if(has_max && v > mx) return mx;
    return v;
}

/* v, mn, mx are not NaN (NaN is not a value "in range" of anything; excluded by the property) */
static inline float spec_clamp_f(float v, int has_min, float mn, int has_max, float mx)
{
    if(has_min && v < mn) return mn;
    if(has_max && v > mx) return mx;
    return v;
}

/* number of undo events the statement demands for a set: one iff the stored value changed */
static inline int spec_undo_events_i(int before, int after)     { return before != after ? 1 : 0; }
static inline int spec_undo_events_f(float before, float after) { return before != after ? 1 : 0; }

/* strings: byte j of the stored string after a set with incoming text `in` (NUL-terminated, length n)
 * on a port of declared length L: the incoming text truncated to L-1 characters, NUL-terminated.      */
static inline char spec_trunc_byte(const char *in, unsigned n, unsigned L, unsigned j)
{
    unsigned keep = n < L - 1 ? n : L - 1;
    return j < keep ? in[j] : 0;
}
#endif
