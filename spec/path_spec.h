/* Executable specification of path collapsing (C18, sentence 1), written from the property statement:
 *
 *   "Collapsing an absolute path returns, inside the same buffer, the path with every '..' component
 *    cancelled against the nearest preceding ordinary component (surplus '..' at the root dropped) and
 *    all other components unchanged and in order."
 *
 * An absolute path of n bytes is '/' c1 '/' c2 ... '/' ck : k components, component i being the bytes
 * between the i-th '/' and the next '/' (or the end). A component is a PARENT REFERENCE iff it is
 * exactly "..", every other component (including ".", "...", "a..", and the empty one) is ORDINARY.
 * The components are pushed left to right on a stack; a parent reference pops the top (the nearest
 * preceding ordinary component that is not cancelled yet) or is dropped when the stack is empty.
 * The result is the concatenation of '/' + c for the surviving components, bottom to top; zero
 * survivors give the empty string.  Nothing here looks at the implementation. */
#ifndef PATH_SPEC_H
#define PATH_SPEC_H
#include <stddef.h>

#ifndef PS_MAXLEN
#define PS_MAXLEN 24
#endif

/* in[0..n) is the path (in[0]=='/'), out has room for n+1 bytes; returns the length of the result */
static size_t spec_collapse(const char *in, size_t n, char *out)
{
    size_t cs[PS_MAXLEN], ce[PS_MAXLEN];   /* stack of [start,end) of surviving ordinary components */
    size_t depth = 0;
    size_t i = 0;
    while(i < n) {                          /* in[i] == '/' */
        size_t s = i + 1, e = s;
        while(e < n && in[e] != '/')
            e++;
        if(e - s == 2 && in[s] == '.' && in[s + 1] == '.') {
            if(depth > 0)
                depth--;                    /* cancels the nearest preceding ordinary component */
        } else {
            cs[depth] = s; ce[depth] = e; depth++;
        }
        i = e;
    }
    size_t o = 0;
    for(size_t d = 0; d < depth; d++) {
        out[o++] = '/';
        for(size_t k = cs[d]; k < ce[d]; k++)
            out[o++] = in[k];
    }
    out[o] = 0;
    return o;
}
#endif
