/* Executable specification of rtosc's path-pattern language (property C05), written from the
 * property statement and doc/Guide.adoc ("Path Specifiers") -- NOT from src/dispatch.c.
 *
 *   pattern   := path [ '/' ] { ':' types }
 *   path      := { element }
 *   element   := literal-char                    the address spells it
 *              | '#' N                           the address carries a decimal index < N here
 *              | '{' alt { ',' alt } '}'         the address spells one of the alternatives here
 *   a '/' that is the LAST character of the path part is the "trailing '/'": the address must spell
 *   it, and may continue arbitrarily after it. Without it the address ends where the path ends.
 *   ':' types alternatives: the type tag string of the message equals one of them.
 *
 * The statement gives a lower and an upper bound for the type clause, so the spec is a band:
 *   SPEC_YES    the statement demands a match   (path matches, and no ':' given or types EQUAL an alternative)
 *   SPEC_NO     the statement forbids a match   (path does not match, or types neither equal to nor an
 *                                                extension of any alternative)
 *   SPEC_EITHER left open by the statement      (path matches, types are a proper extension of an
 *                                                alternative and equal to none)
 *
 * Reading choices (each is the weakest one the statement supports; see wf_pattern for what is excluded):
 *   - the alternatives are tried with full backtracking ("spells ONE OF the alternatives" names no order);
 *   - "a decimal index" is the maximal run of digits at that place (1 or more digits, leading zeros
 *     allowed); patterns where something that can start with a digit directly follows an enumeration
 *     (another enumeration, or a {..} group with an alternative that is empty or starts with a digit)
 *     are not well-formed, so no other reading could differ;
 *   - a '/' inside the path (not last) is literal text.
 *
 * The matcher is a position-set automaton: S = set of address offsets the pattern prefix read so far can
 * end at (bit i of a 64-bit word), so backtracking needs no recursion and every loop has a constant
 * bound (pattern length x SPEC_MAXADDR). */
#ifndef PATTERN_SPEC_H
#define PATTERN_SPEC_H
#include <stdint.h>
#include <stddef.h>
#include <stdbool.h>

#define SPEC_NO     0
#define SPEC_YES    1
#define SPEC_EITHER 2

#ifndef SPEC_MAXADDR
#define SPEC_MAXADDR 62          /* longest address the spec handles (bits 0..62 of the position set) */
#endif
#ifndef SPEC_MAXPAT
#define SPEC_MAXPAT 255
#endif
#define SPEC_MAXDIGITS 9         /* statement/quantifier: indices of up to 9 digits */

static inline bool spec_is_digit(char c) { return c >= '0' && c <= '9'; }
/* characters with a meaning in the pattern language (and '*', the undocumented wildcard of the code) */
static inline bool spec_is_special(char c)
{
    return c == '#' || c == '{' || c == '}' || c == ',' || c == ':' || c == '*';
}
/* literal text of a pattern: what an OSC 1.0 address part may contain, minus the pattern specials.
 * (OSC 1.0 forbids ' ' # * , / ? [ ] { } in a method name; '/' separates parts and is allowed here.) */
static inline bool spec_is_literal(char c)
{
    unsigned char u = (unsigned char)c;
    if(u <= ' ' || u >= 127) return false;
    if(spec_is_special(c)) return false;
    if(c == '?' || c == '[' || c == ']') return false;
    return true;
}

/* ------------------------------------------------------------------ well-formedness of a pattern */
static inline bool wf_pattern(const char *p)
{
    size_t i = 0;
    bool after_enum = false;
    while(p[i] && p[i] != ':') {
        if(i >= SPEC_MAXPAT) return false;
        char c = p[i];
        if(c == '#') {
            size_t d = 0;
            if(after_enum) return false;                              /* "#2#3": where does the first index end? */
            i++;
            while(spec_is_digit(p[i])) { i++; d++; if(d > SPEC_MAXDIGITS) return false; }
            if(d == 0) return false;
            after_enum = true;
            continue;
        }
        if(c == '{') {
            i++;
            bool at_alt_start = true;
            while(p[i] != '}') {
                if(i >= SPEC_MAXPAT) return false;
                if(p[i] == ',') {
                    if(after_enum && at_alt_start) return false;      /* empty alternative after #N */
                    at_alt_start = true; i++; continue;
                }
                if(!spec_is_literal(p[i])) return false;              /* also: NUL = unbalanced brace */
                if(after_enum && at_alt_start && spec_is_digit(p[i])) return false;
                at_alt_start = false;
                i++;
            }
            if(after_enum && at_alt_start) return false;              /* (last) alternative empty after #N */
            i++;
            after_enum = false;
            continue;
        }
        if(!spec_is_literal(c)) return false;
        /* a literal digit directly after an enumeration cannot be written (it would be part of N) */
        after_enum = false;
        i++;
    }
    /* type alternatives: ':' followed by any tag characters, repeated */
    while(p[i]) {
        if(i >= SPEC_MAXPAT) return false;
        unsigned char u = (unsigned char)p[i];
        if(p[i] != ':' && (u <= ' ' || u >= 127)) return false;
        i++;
    }
    return true;
}

/* some alternative of some {..} group is a proper prefix of another alternative of the same group
 * (includes an empty alternative next to a non-empty one) */
static inline bool spec_has_prefix_alternative(const char *p)
{
    size_t i = 0;
    while(p[i] && p[i] != ':') {
        if(p[i] != '{') { i++; continue; }
        size_t g = i + 1, e = g;
        while(p[e] && p[e] != '}') e++;
        /* alternatives start at g and after every ',' in [g,e) */
        for(size_t a = g; a <= e; a++) {
            if(!(a == g || p[a - 1] == ',')) continue;
            size_t alen = 0; while(a + alen < e && p[a + alen] != ',') alen++;
            for(size_t b = g; b <= e; b++) {
                if(!(b == g || p[b - 1] == ',') || b == a) continue;
                size_t blen = 0; while(b + blen < e && p[b + blen] != ',') blen++;
                if(alen >= blen) continue;
                size_t k = 0; while(k < alen && p[a + k] == p[b + k]) k++;
                if(k == alen) return true;
            }
        }
        i = p[e] ? e + 1 : e;
    }
    return false;
}

/* ------------------------------------------------------------------ the message, per OSC 1.0 */
static inline size_t spec_addr_len(const char *msg)
{
    size_t n = 0;
    while(n <= SPEC_MAXADDR && msg[n]) n++;
    return n;
}
/* first type tag: the address is NUL padded to a multiple of 4 (at least one NUL), then comes ',' */
static inline const char *spec_types(const char *msg)
{
    size_t n = spec_addr_len(msg);
    return msg + (n / 4u + 1u) * 4u + 1u;
}

/* ------------------------------------------------------------------ the path part */
/* S -> positions after spelling character c */
static inline uint64_t spec_step_char(uint64_t S, const char *addr, size_t L, char c)
{
    uint64_t R = 0;
    for(size_t i = 0; i < L; i++)
        if(((S >> i) & 1u) && addr[i] == c)
            R |= (uint64_t)1 << (i + 1);
    return R;
}
/* S -> positions after a decimal index < N (maximal digit run, at least one digit) */
static inline uint64_t spec_step_enum(uint64_t S, const char *addr, size_t L, uint64_t N)
{
    uint64_t R = 0;
    for(size_t i = 0; i < L; i++) {
        if(!((S >> i) & 1u) || !spec_is_digit(addr[i])) continue;
        uint64_t v = 0; bool big = false;
        size_t j = i;
        while(j < L && spec_is_digit(addr[j])) {
            v = v * 10u + (uint64_t)(addr[j] - '0');
            if(v > 999999999u) { big = true; v = 1000000000u; }     /* saturate: N has at most 9 digits */
            j++;
        }
        if(!big && v < N)
            R |= (uint64_t)1 << j;
    }
    return R;
}

/* SPEC_YES/SPEC_NO for the path part of `pattern` against the address of length L; *rest = where the
 * type alternatives (or the end of the pattern) start */
static inline bool spec_match_path(const char *pattern, const char *addr, size_t L, const char **rest)
{
    const char *p = pattern;
    uint64_t S = 1;                     /* {0} */
    bool trailing = false;
    while(*p && *p != ':') {
        if(*p == '#') {
            uint64_t N = 0;
            p++;
            while(spec_is_digit(*p)) { N = N * 10u + (uint64_t)(*p - '0'); p++; }
            S = spec_step_enum(S, addr, L, N);
        } else if(*p == '{') {
            uint64_t R = 0, A = S;       /* A: positions while spelling the current alternative */
            p++;
            while(*p && *p != '}') {
                if(*p == ',') { R |= A; A = S; }
                else A = spec_step_char(A, addr, L, *p);
                p++;
            }
            R |= A;
            if(*p == '}') p++;
            S = R;
        } else {
            S = spec_step_char(S, addr, L, *p);
            if(*p == '/' && (p[1] == '\0' || p[1] == ':')) trailing = true;
            p++;
        }
    }
    *rest = p;
    if(trailing) return S != 0;          /* anything may follow the trailing '/' */
    return ((S >> L) & 1u) != 0;         /* the address ends where the path ends */
}

/* ------------------------------------------------------------------ the type part */
static inline int spec_match_types(const char *alts, const char *types)
{
    if(*alts != ':') return SPEC_YES;    /* no restriction given */
    bool eq = false, ext = false;
    const char *a = alts;
    while(*a == ':') {
        a++;
        size_t k = 0;
        bool pre = true;                 /* alternative is a prefix of types so far */
        while(a[k] && a[k] != ':') {
            if(pre && types[k] != a[k]) pre = false;      /* stops at the NUL of types as well */
            k++;
        }
        if(pre) { if(types[k] == '\0') eq = true; else ext = true; }
        a += k;
    }
    return eq ? SPEC_YES : ext ? SPEC_EITHER : SPEC_NO;
}

/* spec_match for a caller that already knows L == spec_addr_len(msg) (a verifier then needs no
 * symbolic string length; the harness asserts the equality separately) */
static inline int spec_match_at(const char *pattern, const char *msg, size_t L)
{
    const char *rest;
    if(!spec_match_path(pattern, msg, L, &rest)) return SPEC_NO;
    if(*rest != ':') return SPEC_YES;
    return spec_match_types(rest, msg + (L / 4u + 1u) * 4u + 1u);
}
/* precondition: wf_pattern(pattern); msg is an OSC message whose address has <= SPEC_MAXADDR bytes */
static inline int spec_match(const char *pattern, const char *msg)
{
    return spec_match_at(pattern, msg, spec_addr_len(msg));
}
#endif
