/* C08 known finding: rtosc_bundle() sizes a nested bundle element by scanning for a zero size word, i.e. it
 * reads the 4 bytes after the element. gcc -fsanitize=address -I/repo/include this.c /repo/src/rtosc.c */
#include <rtosc/rtosc.h>
#include <stdio.h>
#include <stdlib.h>
#include <string.h>
int main(void)
{
    char msg[16], inner[64], outer[128];
    rtosc_message(msg, sizeof msg, "/a", "i", 7);
    size_t in_len = rtosc_bundle(inner, sizeof inner, 1, 1, msg);          /* 16+4+12 = 32 bytes */
    char *exact = malloc(in_len + 4);                                         /* element followed by 4 non-zero bytes */
    memcpy(exact, inner, in_len); memcpy(exact + in_len, "\0\0\0\4", 4);
    size_t out_len = rtosc_bundle(outer, sizeof outer, 2, 1, exact);
    printf("inner=%zu outer=%zu (expected %zu) element size read back=%zu\n", in_len, out_len, 16 + 4 + in_len,
           rtosc_bundle_size(outer, 0));
    return rtosc_bundle_size(outer, 0) != in_len;
}
