/* C16 extra finding (outside the bound of the C16 obligations, inside the property's quantifier): a delta-less range
 * whose value is an ARRAY ("2 x [1 2]"; pretty-format.c:insert_arg_range builds these).
 *   gcc -g -fsanitize=address -DNDEBUG -I/repo/include c16_array_range_witness.c /repo/src/cpp/arg-val-cmp.c \
 *       /repo/src/cpp/arg-val-itr.c /repo/src/cpp/arg-val-math.c /repo/src/cpp/arg-ext.c && ./a.out
 * unchanged tree: AddressSanitizer stack-buffer-overflow in rtosc_arg_vals_cmp_has_next <- rtosc_arg_vals_eq <-
 *   rtosc_arg_vals_eq_single: rtosc_arg_val_itr_get copies only the array HEADER into the caller's one-slot buffer
 *   (arg-val-itr.c:21 `*buffer = itr->av[1]`), eq_single/cmp_single then read the elements at buffer+1.
 * repair: return a pointer into the list for delta-less ranges (`result = itr->av + 1`). */
#include <rtosc/rtosc.h>
#include <rtosc/arg-ext.h>
#include <rtosc/arg-val-cmp.h>
#include <stdio.h>
#include <stdlib.h>
#include <string.h>
static void mkarr(rtosc_arg_val_t *a, char t, int len)
{
    memset(a, 0, sizeof *a); a->type = 'a'; rtosc_av_arr_type_set(a, t); rtosc_av_arr_len_set(a, len);
}
static void mki(rtosc_arg_val_t *a, int v) { memset(a, 0, sizeof *a); a->type = 'i'; a->val.i = v; }
int main(void)
{
    rtosc_arg_val_t *C = malloc(4 * sizeof *C), *E = malloc(6 * sizeof *E);
    memset(&C[0], 0, sizeof C[0]); C[0].type = '-'; rtosc_av_rep_num_set(&C[0], 2); rtosc_av_rep_has_delta_set(&C[0], 0);
    mkarr(&C[1], 'i', 2); mki(&C[2], 1); mki(&C[3], 2);                                   /* 2 x [1 2] */
    mkarr(&E[0], 'i', 2); mki(&E[1], 1); mki(&E[2], 2); mkarr(&E[3], 'i', 2); mki(&E[4], 1); mki(&E[5], 2);
    int e = rtosc_arg_vals_eq(C, E, 4, 6, NULL), c = rtosc_arg_vals_cmp(C, E, 4, 6, NULL);
    printf("eq = %d (expected 1)  cmp = %d (expected 0)\n", e, c);
    return !(e == 1 && c == 0);
}
