/* C05 defect "args-overread": rtosc_match_args() advances through the message's type tag string in step
 * with the pattern's alternative and does not stop at the tag string's terminating NUL. A type alternative
 * that is longer than what is left of the message is compared with bytes BEHIND the message.
 *   gcc -DNDEBUG -g -fsanitize=address -I/repo/include findings/c05_args_overread_witness.c /repo/src/dispatch.c /repo/src/rtosc.c
 * unchanged tree: AddressSanitizer heap-buffer-overflow READ of size 1 in rtosc_match_args (dispatch.c:122).
 * The result of the match is not affected (the comparison is already false at the NUL).
 *
 * proposed patch (src/dispatch.c, rtosc_match_args):
 *   -    while(*pattern && *pattern != ':')
 *   -        arg_match &= (*pattern++==*arg_str++);
 *   +    while(*pattern && *pattern != ':') {
 *   +        arg_match &= (*pattern++==*arg_str);
 *   +        if(*arg_str)
 *   +            arg_str++;
 *   +    }
 */
#include <rtosc/rtosc.h>
#include <stdio.h>
#include <stdlib.h>
int main(void)
{
    size_t n = rtosc_message(NULL, 0, "a", "T");          /* "a\0\0\0" ",T\0\0" = 8 bytes */
    char *m = malloc(n);
    rtosc_message(m, n, "a", "T");
    int r = rtosc_match("a:iiii", m, NULL);                /* reads m[5..8]: m[8] is outside */
    printf("len=%zu rtosc_match(\"a:iiii\", {a; T}) = %d\n", n, r);
    free(m);
    return r;
}
