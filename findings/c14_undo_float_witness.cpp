/* C14 finding: the /undo_change event of FLOAT parameter ports carries a garbage "previous value".
 *
 * port-sugar.h:413
 *   #define rCAPPLY(getcode, t, setcode) if((decltype(var))(getcode) != var)
 *        data.reply("/undo_change", "s" #t #t, data.loc, static_cast<int>(getcode), var); setcode;
 * For rParamF / rArrayF the format is "sff" but the second variadic argument is static_cast<int>(old):
 * an int is pushed where RtData::reply's va_list decoding (rtosc_vmessage -> va_arg(ap,double)) reads a
 * double.  On x86-64 the int goes to a general-purpose register while va_arg(double) reads the next XMM
 * register, i.e. the NEW value (or stack garbage); in every ABI the fractional part is lost anyway.
 *
 * Real header, real rtosc::Ports dispatch, real RtData subclass, real rtosc_vmessage decoding.
 *
 * build:  g++ -std=c++11 -I/repo/include findings/c14_undo_float_witness.cpp \
 *             /repo/_build/librtosc-cpp.a /repo/_build/librtosc.a -o /var/tmp/c14_witness
 * run:    /var/tmp/c14_witness        exit 3 = defect observed, 0 = previous value reported correctly
 */
#include <cstdio>
#include <cstdarg>
#include <cstring>
#include <cstdlib>
#include <cctype>
#include <rtosc/rtosc.h>
#include <rtosc/ports.h>
#include <rtosc/port-sugar.h>
using namespace rtosc;

struct Obj { float gain; float arr[4]; int count; };

#define rObject Obj
static const Ports ports = {
    rParamF(gain, rLinear(-2.5, 2.5), "float parameter"),
    rArrayF(arr, 4, rLinear(0, 1), "float array"),
    rParamI(count, rLinear(-10, 10), "int parameter (control: correct)"),
};
#undef rObject

struct Capture : RtData {
    char locbuf[128];
    int  n_undo;
    char undo_types[8];
    char undo_addr[128];
    double undo_old, undo_new;
    Capture() : n_undo(0) { memset(locbuf, 0, sizeof locbuf); loc = locbuf; loc_size = sizeof locbuf; undo_types[0] = 0; }
    void reply(const char *path, const char *args, ...) override {
        char buf[512];
        va_list va; va_start(va, args);
        rtosc_vmessage(buf, sizeof buf, path, args, va);      /* the library's own va_list decoding */
        va_end(va);
        if(!strcmp(path, "/undo_change")) {
            n_undo++;
            strncpy(undo_types, rtosc_argument_string(buf), sizeof undo_types - 1);
            strncpy(undo_addr, rtosc_argument(buf, 0).s, sizeof undo_addr - 1);
            if(undo_types[1] == 'f') { undo_old = rtosc_argument(buf, 1).f; undo_new = rtosc_argument(buf, 2).f; }
            else                     { undo_old = rtosc_argument(buf, 1).i; undo_new = rtosc_argument(buf, 2).i; }
        }
    }
    void reply(const char *) override {}
    void broadcast(const char *, const char *, ...) override {}
    void broadcast(const char *) override {}
};

static int set_f(Obj &o, const char *addr, float v, double expect_old, double expect_new)
{
    char msg[128];
    Capture d; d.obj = &o;
    rtosc_message(msg, sizeof msg, addr, "f", v);
    ports.dispatch(msg, d, true);
    printf("set %-8s %-8g : undo events=%d types=\"%s\" addr=\"%s\" old=%-14g new=%-8g  (true old=%g, expected new=%g)\n",
           addr, v, d.n_undo, d.undo_types, d.undo_addr, d.undo_old, d.undo_new, expect_old, expect_new);
    return d.n_undo == 1 && d.undo_old == expect_old && d.undo_new == expect_new;
}

int main(void)
{
    Obj o; memset(&o, 0, sizeof o);
    int ok = 1;
    o.gain = 0.75f;
    ok &= set_f(o, "/gain", 1.5f, 0.75, 1.5);         /* in range: old must be 0.75        */
    ok &= set_f(o, "/gain", 9.0f, 1.5, 2.5);          /* clamped at max: old must be 1.5   */
    o.arr[2] = 0.25f;
    ok &= set_f(o, "/arr2", 0.5f, 0.25, 0.5);         /* array element: old must be 0.25   */
    {   /* control: the int port reports its previous value correctly */
        char msg[128]; Capture d; d.obj = &o; o.count = -3;
        rtosc_message(msg, sizeof msg, "/count", "i", 7);
        ports.dispatch(msg, d, true);
        printf("set /count   7        : undo events=%d types=\"%s\" old=%g new=%g  (true old=-3)\n",
               d.n_undo, d.undo_types, d.undo_old, d.undo_new);
        if(!(d.n_undo == 1 && d.undo_old == -3 && d.undo_new == 7)) { printf("control failed\n"); return 2; }
    }
    if(!ok) { printf("DEFECT: /undo_change of a float port does not carry the true previous value\n"); return 3; }
    printf("previous values reported correctly\n");
    return 0;
}
