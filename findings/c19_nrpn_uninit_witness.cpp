// C19 witness 3 (base case of the induction): AutomationMgr's constructor never initialises the private NRPN
// registers (NRPN.parhi/parlo/valhi/vallo). A freshly constructed manager therefore does NOT satisfy the invariant
// "each register is -1 or a 7 bit value": the registers hold whatever the storage held before (indeterminate values;
// reading them is undefined behaviour). With non-negative garbage a single Data Entry controller (CC 6 or 38, which
// keyboards also send as part of ordinary RPN messages such as pitch-bend range) is taken for a complete NRPN with a
// garbage parameter number: a waiting slot is bound to an NRPN id nobody selected.
//
//   g++ -std=c++11 -I/repo/include -I/repo/src findings/c19_nrpn_uninit_witness.cpp \
//       /repo/_build/librtosc-cpp.a /repo/_build/librtosc.a -o /var/tmp/c19w3 && /var/tmp/c19w3
// exit code 1 = defect present, 0 = fixed.
#include <rtosc/ports.h>
#include <rtosc/automations.h>
#include <cstdio>
#include <cstring>
#include <new>

static const rtosc::Ports ports = {
    {"p0::f", ":min\0=0\0:max\0=1\0", 0, [](const char *, rtosc::RtData &) {}},
};

int main()
{
    // storage with a recognisable previous content, as a heap block that has been used before would have
    alignas(rtosc::AutomationMgr) static unsigned char store[sizeof(rtosc::AutomationMgr)];
    memset(store, 0x01, sizeof store);
    rtosc::AutomationMgr &mgr = *new(store) rtosc::AutomationMgr(2, 1, 4);
    mgr.set_ports(ports);
    mgr.backend = [](const char *) {};

    int parhi = -2, parlo = -2, valhi = -2, vallo = -2;
    int complete = mgr.getnrpn(&parhi, &parlo, &valhi, &vallo) == 0;
    printf("fresh manager: getnrpn says %s (parhi=%#x parlo=%#x valhi=%#x vallo=%#x)\n",
           complete ? "COMPLETE NRPN" : "no NRPN", parhi, parlo, valhi, vallo);

    mgr.createBinding(0, "/p0", true);          // slot 0 waits for MIDI learn
    mgr.handleMidi(0, 6, 1);                    // a lone Data Entry MSB, no NRPN was ever selected
    printf("after a lone CC6: slot0 learning=%d midi_cc=%d midi_nrpn=%d (%#x)\n", mgr.slots[0].learning,
           mgr.slots[0].midi_cc, mgr.slots[0].midi_nrpn, mgr.slots[0].midi_nrpn);

    bool ok = !complete && mgr.slots[0].midi_nrpn == -1;
    printf(ok ? "OK: NRPN registers start out unknown\n"
              : "DEFECT: constructor leaves the NRPN registers uninitialised; slot 0 was bound to a garbage NRPN id\n");
    mgr.~AutomationMgr();
    return ok ? 0 : 1;
}
