// C19 witness: AutomationMgr::clearSlot() on a slot that is NOT waiting for MIDI learn corrupts the learn queue.
//
//   clearSlot tests `if(s.learning)`, which is true for -1 (= not waiting): learn_queue_len is decremented although
//   nothing left the queue, and because `slots[i].learning > s.learning` is `> -1`, every waiting slot's rank is
//   decremented: rank 1 becomes 0. handleMidi serves `learning == 1` only, so the slot that asked first is never bound.
//
// build + run (real library sources, no test framework):
//   g++ -std=c++11 -I/repo/include -I/repo/src findings/c19_clearslot_witness.cpp \
//       /repo/_build/librtosc-cpp.a /repo/_build/librtosc.a -o /var/tmp/c19w && /var/tmp/c19w
// exit code 1 = defect present, 0 = fixed.
#include <rtosc/ports.h>
#include <rtosc/automations.h>
#include <cstdio>

static const rtosc::Ports ports = {
    {"p0::f", ":min\0=0\0:max\0=1\0", 0, [](const char *, rtosc::RtData &) {}},
    {"p1::f", ":min\0=0\0:max\0=1\0", 0, [](const char *, rtosc::RtData &) {}},
};

int main()
{
    rtosc::AutomationMgr mgr(4, 2, 4);
    mgr.set_ports(ports);
    mgr.backend = [](const char *) {};

    mgr.createBinding(0, "/p0", true);   // slot 0 asks for MIDI learn first
    mgr.createBinding(1, "/p1", true);   // slot 1 asks second
    printf("after two learn requests : learning = {%d,%d,%d,%d} learn_queue_len=%d\n", mgr.slots[0].learning,
           mgr.slots[1].learning, mgr.slots[2].learning, mgr.slots[3].learning, mgr.learn_queue_len);

    mgr.clearSlot(3);                    // unrelated, never used, not waiting
    printf("after clearSlot(3)       : learning = {%d,%d,%d,%d} learn_queue_len=%d\n", mgr.slots[0].learning,
           mgr.slots[1].learning, mgr.slots[2].learning, mgr.slots[3].learning, mgr.learn_queue_len);

    mgr.handleMidi(0, 20, 64);           // first unbound controller: must bind slot 0 (asked first)
    mgr.handleMidi(0, 21, 64);           // second unbound controller: must bind slot 1
    printf("after CC20, CC21         : midi_cc  = {%d,%d} learning = {%d,%d} learn_queue_len=%d\n", mgr.slots[0].midi_cc,
           mgr.slots[1].midi_cc, mgr.slots[0].learning, mgr.slots[1].learning, mgr.learn_queue_len);

    bool ok = mgr.slots[0].midi_cc == 20 && mgr.slots[1].midi_cc == 21 && mgr.learn_queue_len == 0;
    printf(ok ? "OK: learn requests served in order\n"
              : "DEFECT: slot 0 asked first but CC20 was given to slot %d; slot 0 holds rank %d and is never served\n",
           mgr.slots[1].midi_cc == 20 ? 1 : -1, mgr.slots[0].learning);
    return ok ? 0 : 1;
}
