/* C16 defects 2 and 3: arrays of different element type.
 *   gcc -DNDEBUG -I/repo/include c16_array_type_order_witness.c /repo/src/cpp/arg-val-cmp.c /repo/src/cpp/arg-val-itr.c \
 *       /repo/src/cpp/arg-val-math.c /repo/src/cpp/arg-ext.c && ./a.out
 * (2) unchanged tree: cmp(T[], i[]) = 0 but cmp(i[], T[]) = 1 and eq = 0  -> not antisymmetric, 0 without equality;
 *     also cmp(T[T], i[]) = 1 although 'T' < 'i'.
 *     cause: arg-val-cmp.c:275/276 test `rtosc_av_arr_type(_rhs)` for truth instead of == 'F' / == 'T', so a boolean
 *     array on the LEFT is compared element-wise with an array of any type.
 * (3) transitivity (remains if (2) is repaired by writing == 'F' / == 'T' only): F[] == T[] (boolean arrays are one
 *     type) but 'F' < 'I','N','S' < 'T':   cmp(F[],S[]) < 0, cmp(S[],T[]) < 0, cmp(F[],T[]) == 0.
 *     repair: map element type 'F' to 'T' on both sides before comparing the element types.
 * obligations that hit them: C16.array.T_i F_i T_b F_S S_T F_I F_N N_T (quick tier); every C16.array.<T|F>_<x> and
 * <x>_<T|F> with x not boolean in the thorough tier. */
#include <rtosc/rtosc.h>
#include <rtosc/arg-ext.h>
#include <rtosc/arg-val-cmp.h>
#include <stdio.h>
#include <string.h>
static void mkarr(rtosc_arg_val_t *a, char t, int len)
{
    memset(a, 0, sizeof *a); a->type = 'a'; rtosc_av_arr_type_set(a, t); rtosc_av_arr_len_set(a, len);
}
static int sgn(int x) { return (x > 0) - (x < 0); }
int main(void)
{
    rtosc_arg_val_t T[1], I[1], F[1], S[1], T1[2];
    mkarr(T, 'T', 0); mkarr(I, 'i', 0); mkarr(F, 'F', 0); mkarr(S, 'S', 0);
    mkarr(T1, 'T', 1); T1[1].type = 'T'; T1[1].val.T = 1;
    int ti = rtosc_arg_vals_cmp_single(T, I, NULL), it = rtosc_arg_vals_cmp_single(I, T, NULL);
    printf("(2) cmp(T[],i[]) = %d  cmp(i[],T[]) = %d  eq(T[],i[]) = %d  cmp(T[T],i[]) = %d\n", ti, it,
           rtosc_arg_vals_eq_single(T, I, NULL), rtosc_arg_vals_cmp_single(T1, I, NULL));
    int fs = rtosc_arg_vals_cmp_single(F, S, NULL), st = rtosc_arg_vals_cmp_single(S, T, NULL),
        ft = rtosc_arg_vals_cmp_single(F, T, NULL), sf = rtosc_arg_vals_cmp_single(S, F, NULL);
    printf("(3) cmp(F[],S[]) = %d  cmp(S[],F[]) = %d  cmp(S[],T[]) = %d  cmp(F[],T[]) = %d\n", fs, sf, st, ft);
    int antisym = sgn(ti) == -sgn(it) && sgn(fs) == -sgn(sf);
    int trans = !(fs <= 0 && st <= 0 && (fs < 0 || st < 0)) || ft < 0;
    printf("antisymmetric: %s   transitive: %s\n", antisym ? "yes" : "NO", trans ? "yes" : "NO");
    return !(antisym && trans);
}
