/* C06: ThreadLink::raw_write accepts a message longer than MaxMsg when it fits the ring; read() then copies it
 * into read_buffer[MaxMsg] (the guarding assert is compiled out in the shipped NDEBUG build).
 * g++ -fsanitize=address -DNDEBUG -I/repo/include this.cpp /repo/src/cpp/thread-link.cpp /repo/src/rtosc.c */
#include <rtosc/thread-link.h>
#include <rtosc/rtosc.h>
#include <cstdio>
int main()
{
    rtosc::ThreadLink tl(32, 8);                 /* MaxMsg 32, ring 256 bytes */
    char big[128];
    size_t n = rtosc_message(big, sizeof big, "/long", "s", "0123456789012345678901234567890123456789012345678901234567890123");
    printf("message of %zu bytes, MaxMsg 32\n", n);
    tl.raw_write(big);
    if(!tl.hasNext()) { printf("dropped whole (correct)\n"); return 0; }
    tl.read();                                   /* ASan: heap-buffer-overflow write into read_buffer */
    printf("accepted and read back: overflow of read_buffer\n");
    return 1;
}
