/* Native witnesses for the C07 defects found by the C07 obligations on the pinned tree (3c7c3be).
 * build: gcc -fsanitize=address -I/repo/include findings/c07_witness.c /repo/src/rtosc.c -o w && ./w <case> */
#include <rtosc/rtosc.h>
#include <stdio.h>
#include <stdlib.h>
#include <string.h>
#include <unistd.h>
int main(int argc, char **argv)
{
    int c = argc > 1 ? atoi(argv[1]) : 0;
    if(c == 1) { /* validator accepts a blob whose length field wraps the 32-bit position */
        static const unsigned char m[12] = {'/','a',0,0, ',','b','i',0, 0xff,0xff,0xff,0xfc};
        char *b = malloc(12); memcpy(b, m, 12);
        int ok = rtosc_valid_message_p(b, 12);
        printf("valid_message_p = %d (expected 0)\n", ok);
        if(ok) { rtosc_arg_t a = rtosc_argument(b, 1); printf("arg1.i=%d\n", a.i); }  /* ASan: heap overflow */
        return ok;
    }
    if(c == 2) { /* message_length never returns: bundle element size 0xfffffffc => pos += 4+advance adds 0 */
        static const unsigned char m[20] = {'#','b','u','n','d','l','e',0, 0,0,0,0,0,0,0,1, 0xff,0xff,0xff,0xfc};
        char *b = malloc(20); memcpy(b, m, 20);
        alarm(3);
        size_t L = rtosc_message_length(b, 20);
        printf("message_length = %zu\n", L);
        return 0;
    }
    if(c == 3) { /* valid_message_p(msg,0) reads msg[0] */
        char *b = malloc(1); free(b); b = malloc(0);
        printf("valid = %d\n", rtosc_valid_message_p(b, 0));   /* ASan: read of size 1 at 0 bytes region */
        return 0;
    }
    return 0;
}
