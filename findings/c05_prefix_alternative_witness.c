/* C05 known finding "prefix-alternative": rtosc_match_options() commits to the first alternative that is
 * a prefix of the remaining address and never comes back to it. When one alternative of a {..} group is a
 * proper prefix of another one (in either order, including an empty alternative), a message that spells
 * "one of the alternatives" followed by the rest of the pattern is rejected.
 *   gcc -DNDEBUG -I/repo/include findings/c05_prefix_alternative_witness.c /repo/src/dispatch.c /repo/src/rtosc.c
 * exit status = number of rejected messages that the pattern language admits (4 on the unchanged tree). */
#include <rtosc/rtosc.h>
#include <stdio.h>
static int t(const char *pat, const char *addr)
{
    char m[64];
    rtosc_message(m, sizeof m, addr, "");
    int r = rtosc_match(pat, m, NULL);
    printf("rtosc_match(\"%s\", \"%s\") = %d   (statement: match)\n", pat, addr, r);
    return !r;
}
int main(void)
{
    int bad = 0;
    bad += t("{a,ab}c", "abc");   /* spells alternative "ab", then "c"; code takes "a", then 'c' != 'b'      */
    bad += t("{ab,a}b", "ab");    /* spells alternative "a", then "b";  code takes "ab", then 'b' != NUL     */
    bad += t("{,a}", "a");        /* empty alternative first: code takes "", then NUL != 'a'                  */
    bad += t("x{a,ab}/", "xab/y");
    /* controls: no alternative is a prefix of another -> accepted */
    bad += 10 * t("{a,b}c", "bc");
    bad += 10 * t("z{oo,am,it}", "zit");
    return bad;
}
