/* C17 witness: Port::MetaContainer::length() over-reports by one byte when the container is built from the
 * metadata pointer itself (leading ':' still there) instead of through Port::meta().
 *
 * length() returns 2 + (distance to the second NUL of the final "\0\0"): the 2 stands for the ':' that
 * Port::meta() stripped plus the terminator. rtosc::path_search() (src/cpp/ports.cpp) builds the container with
 * MetaContainer(p.metadata) - not stripped - and puts tmp.length() into the blob of its reply, so the reply
 * claims sizeof(metadata)+1 bytes and rtosc_amessage copies one byte from behind the metadata literal.
 *
 * build: g++ -std=c++11 -g -fsanitize=address -I/repo/include findings/c17_length_unstripped_witness.cpp \
 *            /repo/src/*.c /repo/src/cpp/*.cpp -o w && ./w
 * expected output on the unchanged tree: length via meta() = 4 (== sizeof), length of MetaContainer(metadata) = 5,
 * path_search blob length 5 for a 4 byte block (ASan: global-buffer-overflow when the block is a heap/stack copy). */
#include <rtosc/ports.h>
#include <rtosc/port-sugar.h>
#include <rtosc/rtosc.h>
#include <cstdio>
#include <cstring>
#include <cstdlib>

int main()
{
    setvbuf(stdout, NULL, _IONBF, 0);
    static const char block[] = rProp(p);              /* ":p\0" + implicit NUL = 4 bytes */
    /* exact-size heap copy so that ASan sees the byte behind the block */
    char *md = (char*)malloc(sizeof(block));
    memcpy(md, block, sizeof(block));

    rtosc::Ports ports = { {"x", md, 0, [](const char*, rtosc::RtData&){}} };
    const rtosc::Port &port = ports.ports[0];

    size_t via_meta   = port.meta().length();
    size_t unstripped = rtosc::Port::MetaContainer(port.metadata).length();
    printf("sizeof(block)                         = %zu\n", sizeof(block));
    printf("port.meta().length()                  = %zu\n", via_meta);
    printf("MetaContainer(port.metadata).length() = %zu   <-- as path_search() computes it\n", unstripped);

    int rc = (via_meta == sizeof(block) && unstripped == sizeof(block)) ? 0 : 3;

    /* the consumer: path_search puts that length into the reply blob */
    char        types[16 + 1];
    rtosc_arg_t args[16];
    rtosc::path_search(ports, "", "", types, sizeof(types), args, 16, rtosc::path_search_opts::unmodified, false);
    printf("path_search: types=\"%s\" blob length = %d for a %zu byte block\n", types, (int)args[1].b.len, sizeof(block));
    if((size_t)args[1].b.len != sizeof(block)) rc = 3;
    char buf[256];
    size_t n = rtosc_amessage(buf, sizeof(buf), "/paths", types, args);   /* copies blob.len bytes: 1 byte over-read */
    printf("reply message of %zu bytes built\n", n);
    free(md);
    return rc;
}
