/* C16 supporting facts (no defect claimed):
 * (a) cmp_single on a NULL string against a non-NULL string compares the two POINTERS with `>` (arg-val-cmp.c:251):
 *     a relational comparison involving a null pointer is undefined in ISO C (6.5.8p5) and has no model in CBMC
 *     ("pointer relation: pointer NULL"); natively the NULL string sorts first, which is what the specification says.
 * (b) rtosc_avmessage(buf, n, addr, 0, args) declares `rtosc_arg_t vals[0]` (arg-val.c:24, STACKALLOC): a variable
 *     length array of size 0 is undefined (6.7.6.2p5); UBSan: "variable length array bound evaluates to non-positive
 *     value 0". The C16 avmessage obligations therefore start at one value.
 *   gcc -DNDEBUG -fsanitize=undefined -I/repo/include -I/repo/src/cpp c16_null_string_witness.c /repo/src/cpp/arg-val-cmp.c \
 *       /repo/src/cpp/arg-val-itr.c /repo/src/cpp/arg-val-math.c /repo/src/cpp/arg-ext.c /repo/src/cpp/arg-val.c \
 *       /repo/src/cpp/util.c /repo/src/rtosc.c && ./a.out */
#include <rtosc/rtosc.h>
#include <rtosc/arg-val.h>
#include <rtosc/arg-val-cmp.h>
#include <stdio.h>
int main(void)
{
    rtosc_arg_val_t n, e;
    n.type = e.type = 's'; n.val.s = NULL; e.val.s = "";
    printf("(a) cmp(NULL,\"\") = %d  cmp(\"\",NULL) = %d  cmp(NULL,NULL) = %d  eq(NULL,\"\") = %d\n",
           rtosc_arg_vals_cmp_single(&n, &e, NULL), rtosc_arg_vals_cmp_single(&e, &n, NULL),
           rtosc_arg_vals_cmp_single(&n, &n, NULL), rtosc_arg_vals_eq_single(&n, &e, NULL));
    char buf[32];
    printf("(b) avmessage with 0 values returns %zu\n", rtosc_avmessage(buf, sizeof buf, "/p", 0, &n));
    return 0;
}
