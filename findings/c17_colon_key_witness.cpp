/* C17 witness (outside the checked domain, reported as a format limitation): a key that STARTS with ':'.
 * The block ":" + ":k" + NUL + "=v" + NUL + ":p" + NUL + NUL is syntactically unambiguous (an entry is ':' key NUL ...),
 * but the reader finds entry starts by "NUL followed by ':'" / "first byte ':'":
 *   - Port::meta() strips the leading ':' and MetaContainer::begin() strips the next ':' as well -> first key "k" instead of ":k";
 *   - for a later entry "::k" operator++ stops on the first ':' and yields ":k" - and the NEXT ++ stops at once on that ':' again
 *     and yields "k" as an extra entry.
 * build: g++ -std=c++11 -I/repo/include findings/c17_colon_key_witness.cpp /repo/src/*.c /repo/src/cpp/*.c* -o w && ./w */
#include <rtosc/ports.h>
#include <cstdio>
#include <cstring>

static int dump(const char *what, const char *md)
{
    rtosc::Port port = {"x", md, 0, 0};
    int n = 0;
    printf("%s\n", what);
    for(const auto x : port.meta())
        printf("  entry %d: key \"%s\" value %s%s%s\n", n++, x.title, x.value ? "\"" : "", x.value ? x.value : "(none)", x.value ? "\"" : "");
    return n;
}

int main()
{
    int n1 = dump("block \"::k\\0=v\\0:p\\0\" (entries: [\":k\"=\"v\"] [\"p\"]) is read as", "::k\0=v\0:p\0");
    int n2 = dump("block \":p\\0::k\\0=v\\0\" (entries: [\"p\"] [\":k\"=\"v\"]) is read as", ":p\0::k\0=v\0");
    printf("expected 2 and 2 entries, got %d and %d\n", n1, n2);
    return (n1 == 2 && n2 == 2) ? 0 : 3;
}
