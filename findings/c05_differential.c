/* C05 native differential run (not part of ./check; used to validate the spec and to find the disagreement classes):
 * every well-formed pattern of <= PMAX characters over PALPHA  x  every address of <= AMAX characters over AALPHA
 * x 9 type strings, three answers each:  spec_match (spec/pattern_spec.h, position sets), an independent naive
 * recursive matcher (ref_match below), and rtosc_match of the real code.
 *   gcc -O2 -w -DNDEBUG -DPMAX=5 -DAMAX=4 -DSHOW=6 -D'PALPHA="ab/#12{},:if"' -D'AALPHA="ab/012:"' \
 *       -I/repo/include -I/verif/spec findings/c05_differential.c /repo/src/dispatch.c /repo/src/rtosc.c
 * Result on the unchanged tree (79 298 patterns, 1 998 554 256 triples, 55 s): spec vs reference: 0 differences;
 * code vs spec: only  (a) pattern with a prefix alternative, statement: match, code: no   (5 945 triples)
 *                     (b) address contains ':', pattern has ':types', statement: no match, code: match (53 996 triples)
 * With the patch proposed in findings/c05_colon_in_address_witness.c class (b) is empty. */
#include <stdio.h>
#include <string.h>
#include <stdlib.h>
#include <rtosc/rtosc.h>
#include "pattern_spec.h"

/* independent naive recursive reference (cross-check of the position-set spec) */
static int isd(char c){return c>='0'&&c<='9';}
static int ref_path(const char *p, const char *a)
{
    if(!*p || *p==':') return *a==0;
    if(*p=='#'){ p++; unsigned long N=0; while(isd(*p)) N=N*10+(*p++-'0');
        if(!isd(*a)) return 0; unsigned long v=0; while(isd(*a)){ v=v*10+(*a++-'0'); if(v>999999999) v=1000000000;} 
        return v<N && ref_path(p,a); }
    if(*p=='{'){ const char *e=strchr(p,'}'); const char *s=p+1;
        while(1){ const char *t=s; while(t<e && *t!=',') t++; size_t n=t-s;
            if(strncmp(a,s,n)==0 && strlen(a)>=n && ref_path(e+1,a+n)) return 1;
            if(t==e) break; s=t+1; }
        return 0; }
    if(*p=='/' && (p[1]==0||p[1]==':')) return *a=='/';
    return *a==*p && *a && ref_path(p+1,a+1);
}
static int ref_match(const char *p, const char *addr, const char *types)
{
    if(!ref_path(p,addr)) return SPEC_NO;
    const char *c=p; /* find types start: first ':' outside braces - braces never contain ':' in wf */
    c=strchr(p,':'); if(!c) return SPEC_YES;
    int eq=0,ext=0;
    while(*c==':'){ c++; const char *e=c; while(*e&&*e!=':') e++; size_t n=e-c;
        if(strlen(types)>=n && strncmp(types,c,n)==0){ if(strlen(types)==n) eq=1; else ext=1; }
        c=e; }
    return eq?SPEC_YES:ext?SPEC_EITHER:SPEC_NO;
}

static const char PA[] = PALPHA;
static const char AA[] = AALPHA;
static const char *TY[] = {"", "i", "f", "ii", "if", "iii", "s", "T", "fi"};
#define NTY 9
static unsigned long npairs, ndis[8], nspecdis, npat;
static int shown[8];

static size_t build(char *buf, const char *addr, const char *types)
{
    memset(buf, 0, 64);
    size_t L=strlen(addr); strcpy(buf, addr); size_t o=(L/4+1)*4; buf[o]=','; strcpy(buf+o+1,types);
    size_t tl = strlen(types)+1; return o + (tl/4+1)*4;
}
static void check(const char *pat)
{
    char addr[8]; char buf[80];
    int kf = spec_has_prefix_alternative(pat);
    npat++;
    int idx[8];
    for(int L=(strchr(pat,':')?1:0); L<=AMAX; L++){
        memset(idx,0,sizeof idx);
        while(1){
            for(int k=0;k<L;k++) addr[k]=AA[idx[k]]; addr[L]=0;
            for(int t=0;t<NTY;t++){
                build(buf, addr, TY[t]);
                int s = spec_match(pat, buf);
                int r = ref_match(pat, addr, TY[t]);
                if(s!=r){ nspecdis++; if(nspecdis<10) printf("SPEC-vs-REF pat=%s addr=%s ty=%s spec=%d ref=%d\n",pat,addr,TY[t],s,r); }
                int c = rtosc_match(pat, buf, NULL);
                npairs++;
                if((s==SPEC_YES && !c) || (s==SPEC_NO && c)){
                    int colon = strchr(addr,':')!=NULL;
                    int cls = kf*1 + colon*2 + (c?4:0);
                    ndis[cls]++;
                    if(shown[cls]<SHOW){ shown[cls]++; printf("DIS cls=%d(kf=%d colon=%d) pat=\"%s\" addr=\"%s\" types=\"%s\" code=%d spec=%d\n",cls,kf,colon,pat,addr,TY[t],c,s); }
                }
            }
            int k=L-1; while(k>=0 && ++idx[k]==(int)(sizeof AA-1)) idx[k--]=0;
            if(k<0) break;
        }
    }
}
int main(void)
{
    char pat[16]; int idx[16];
    for(int L=0;L<=PMAX;L++){
        memset(idx,0,sizeof idx);
        while(1){
            for(int k=0;k<L;k++) pat[k]=PA[idx[k]]; pat[L]=0;
            if(wf_pattern(pat)) check(pat);
            int k=L-1; while(k>=0 && ++idx[k]==(int)(sizeof PA-1)) idx[k--]=0;
            if(k<0) break;
        }
    }
    printf("patterns=%lu pairs=%lu spec-vs-ref=%lu\n",npat,npairs,nspecdis);
    for(int i=0;i<8;i++) printf("class %d (kf=%d colon=%d code=%d): %lu\n",i,i&1,(i>>1)&1,i>>2,ndis[i]);
    return 0;
}
