#include <rtosc/rtosc.h>
#include <stdio.h>
#include <string.h>
int main(){ char b[64]; 
  /* dirty the stack */
  volatile char junk[4096]; memset((void*)junk,0xAA,sizeof junk);
  rtosc_message(b,64,"/a","h",(int64_t)0x1122334455667788LL);
  rtosc_arg_t a = rtosc_argument(b,0);
  printf("%llx\n",(unsigned long long)a.t); return a.t!=0x1122334455667788ULL; }
