#include <rtosc/rtosc.h>
#include <stdio.h>
#include <string.h>
int main(){
  unsigned char b[20] = {'/','a',0,0, ',','s','i',0,  0,'X','Y','Z', 0,0,0,0,  0,0,0,7};
  printf("valid(20)=%d len=%zu\n", rtosc_valid_message_p((char*)b,20), rtosc_message_length((char*)b,20));
  printf("valid(16)=%d\n", rtosc_valid_message_p((char*)b,16));
  printf("arg0='%s' arg1=%d\n", rtosc_argument((char*)b,0).s, rtosc_argument((char*)b,1).i);
}
