/* C19 observation (not a defect to patch): "at the default gain and offset [the mapping] maps slot values 0..1
 * linearly onto min..max" holds EXACTLY only when updateMapping's float arithmetic is exact (obligations
 * C19.emit.default_endpoints_*: min = km/256, max = kx/256, |km|,|kx| <= 2^16). For arbitrary float bounds the
 * control points are center -+ range/2 computed from (mn+mx) and (mx-mn), which cancels: the emitted value at slot
 * value 0 / 1 can miss min / max by about one ulp of (mn+mx)/2 - e.g. [0.1, 1000.7] gives 0.100006104 at 0
 * (relative error 6e-5 of the value, 6e-9 of the range). The value is still inside [min,max] (obligation
 * C19.emit.range_f). CBMC's own counterexample for the any-float obligation (harness entry
 * h_emit_default_endpoints_anyfloat, not part of any tier) is a denormal pair one ulp apart.
 *
 * This file evaluates the formulas of updateMapping/setSlotSub (src/cpp/automations.cpp:119-128,159-163) natively:
 *   gcc findings/c19_endpoint_rounding.c -o /var/tmp/c19ep -lm && /var/tmp/c19ep                                */
#include <stdio.h>
#include <math.h>
int main(void)
{
    float pairs[][2] = {{0.1f, 1000.7f}, {-40.f, 0.f}, {0.f, 127.f}, {20.f, 20000.f}, {0.01f, 0.33f}, {-1.f, 3.3f}};
    for(int k = 0; k < 6; k++) {
        float mn = pairs[k][0], mx = pairs[k][1], gain = 100.f, offset = 0.f;
        float center = (mn+mx)*(0.5 + offset/100.0);
        float range  = (mx-mn)*gain/100.0;
        float a = center-range/2.0, b = center+range/2.0;
        float v0 = 0.f*(b-a) + a, v1 = 1.f*(b-a) + a;
        if(v0 > mx) v0 = mx; else if(v0 < mn) v0 = mn;
        if(v1 > mx) v1 = mx; else if(v1 < mn) v1 = mn;
        printf("min=%.9g max=%.9g: control points a=%.9g b=%.9g  value(0)=%.9g value(1)=%.9g  %s\n", mn, mx, a, b, v0, v1,
               (v0 == mn && v1 == mx) ? "exact" : "INEXACT");
    }
    return 0;
}
