/* C16 defect 1: a blob that is a zero-extended prefix of another compares "equal" with cmp but not with eq.
 *   gcc -DNDEBUG -I/repo/include c16_blob_prefix_witness.c /repo/src/cpp/arg-val-cmp.c /repo/src/cpp/arg-val-itr.c \
 *       /repo/src/cpp/arg-val-math.c /repo/src/cpp/arg-ext.c && ./a.out
 * unchanged tree:  cmp({5},{5,0}) = 0, cmp({5,0},{5}) = 0, eq = 0      (exit 1)
 * expected:        cmp({5},{5,0}) < 0, cmp({5,0},{5}) > 0, eq = 0      (proper prefix first)
 * cause: arg-val-cmp.c:264  rval = (lbs > rbs) ? _lhs->val.b.data[minlen] : -_rhs->val.b.data[minlen];
 *        returns the next BYTE (0 for a zero byte) instead of a sign.
 * obligations that hit it: C16.blob.difflen, C16.array.b_b */
#include <rtosc/rtosc.h>
#include <rtosc/arg-val-cmp.h>
#include <stdio.h>
int main(void)
{
    uint8_t d1[] = {5}, d2[] = {5, 0};
    rtosc_arg_val_t l, r;
    l.type = r.type = 'b';
    l.val.b.len = 1; l.val.b.data = d1;
    r.val.b.len = 2; r.val.b.data = d2;
    int c = rtosc_arg_vals_cmp_single(&l, &r, NULL), c2 = rtosc_arg_vals_cmp_single(&r, &l, NULL),
        e = rtosc_arg_vals_eq_single(&l, &r, NULL);
    printf("cmp({5},{5,0}) = %d   cmp({5,0},{5}) = %d   eq = %d\n", c, c2, e);
    return !(c < 0 && c2 > 0 && e == 0);
}
