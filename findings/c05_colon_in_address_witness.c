/* C05 defect "colon-in-address": rtosc_match_path() treats the ':' that starts the type alternatives as
 * the end of the path only when the address is exhausted; otherwise the ':' and the alternatives after it
 * are compared with the address as literal text. A message whose ADDRESS spells the whole pattern text
 * ("volume:i") therefore matches, with ANY type tag string: the address has extra characters (statement:
 * never matches) and the type restriction is bypassed, so a handler for "volume:i" is run on a message
 * without an int argument. ':' is a legal character of an OSC 1.0 address.
 *   gcc -DNDEBUG -I/repo/include findings/c05_colon_in_address_witness.c /repo/src/dispatch.c /repo/src/rtosc.c
 * exit status = number of wrongly accepted messages (3 on the unchanged tree, 0 with the patch below).
 *
 * proposed patch (src/dispatch.c, rtosc_match_path):
 *   -        if(*pattern == ':' && !*msg)
 *   -            return *path_end = msg, pattern;
 *   +        if(*pattern == ':') {
 *   +            if(*msg)
 *   +                return NULL;
 *   +            return *path_end = msg, pattern;
 *   +        }
 */
#include <rtosc/rtosc.h>
#include <stdio.h>
/* returns 1 when the code's answer differs from what the statement says */
static int t(const char *pat, const char *addr, const char *types, int expect)
{
    char m[64];
    rtosc_message(m, sizeof m, addr, types, "str");
    int r = rtosc_match(pat, m, NULL);
    printf("rtosc_match(\"%s\", address \"%s\" types \"%s\") = %d   (statement: %s)\n", pat, addr, types, r,
           expect ? "match" : "no match");
    return r != expect;
}
int main(void)
{
    int bad = 0;
    bad += t("volume:i", "volume:i", "",  0);   /* no argument at all                         */
    bad += t("volume:i", "volume:i", "s", 0);   /* a string where the handler reads an int    */
    bad += t("a#4:f",    "a2:f",     "",  0);   /* same after an enumeration                  */
    /* controls */
    bad += 10 * t("volume:i", "volume", "s", 0);
    bad += 10 * t("volume:i", "volume", "i", 1);
    return bad;
}
