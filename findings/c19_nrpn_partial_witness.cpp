// C19 witness 2: a MIDI message that is only PART of an NRPN sequence (CC 99, 98, 6 or 38 while the four NRPN
// registers are not yet complete) is taken for "unbound controller number 0": handleMidi falls through to the learn
// code with is_nrpn == false and par_id == 0, so the slot at the head of the learn queue is bound to CC #0 on
// channel 0 (Bank Select) - a controller nobody moved - and the learn request is consumed. No check is made that
// CC 0 is already bound, so two slots can end up on the same controller.
//
//   g++ -std=c++11 -I/repo/include -I/repo/src findings/c19_nrpn_partial_witness.cpp \
//       /repo/_build/librtosc-cpp.a /repo/_build/librtosc.a -o /var/tmp/c19w2 && /var/tmp/c19w2
// exit code 1 = defect present, 0 = fixed.
#include <rtosc/ports.h>
#include <rtosc/automations.h>
#include <cstdio>
#include <new>
#include <cstring>

static const rtosc::Ports ports = {
    {"p0::f", ":min\0=0\0:max\0=1\0", 0, [](const char *, rtosc::RtData &) {}},
    {"p1::f", ":min\0=0\0:max\0=1\0", 0, [](const char *, rtosc::RtData &) {}},
};

int main()
{
    // The constructor does not initialise the private NRPN registers (see c19_nrpn_uninit_witness.cpp); give the
    // object zero-filled storage and send a complete NRPN select first, so that this run does not depend on that.
    alignas(rtosc::AutomationMgr) static unsigned char store[sizeof(rtosc::AutomationMgr)];
    rtosc::AutomationMgr &mgr = *new(store) rtosc::AutomationMgr(4, 2, 4);
    mgr.set_ports(ports);
    mgr.backend = [](const char *) {};

    mgr.createBinding(0, "/p0", true);          // slot 0 waits for MIDI learn
    mgr.createBinding(1, "/p1", true);          // slot 1 waits behind it
    printf("waiting: learning={%d,%d} len=%d\n", mgr.slots[0].learning, mgr.slots[1].learning, mgr.learn_queue_len);

    mgr.handleMidi(0, 99, 5);                   // NRPN parameter MSB only: identifies no controller yet
    printf("after CC99 (NRPN MSB) : slot0 midi_cc=%d midi_nrpn=%d learning=%d   len=%d\n", mgr.slots[0].midi_cc,
           mgr.slots[0].midi_nrpn, mgr.slots[0].learning, mgr.learn_queue_len);
    mgr.handleMidi(0, 98, 7);                   // NRPN parameter LSB
    printf("after CC98 (NRPN LSB) : slot1 midi_cc=%d midi_nrpn=%d learning=%d   len=%d\n", mgr.slots[1].midi_cc,
           mgr.slots[1].midi_nrpn, mgr.slots[1].learning, mgr.learn_queue_len);

    bool ok = mgr.slots[0].midi_cc == -1 && mgr.slots[1].midi_cc == -1 && mgr.learn_queue_len == 2;
    printf(ok ? "OK: an incomplete NRPN sequence binds nothing\n"
              : "DEFECT: two bytes of one NRPN select bound BOTH waiting slots to CC#0/ch0 (same controller twice)\n");
    mgr.~AutomationMgr();
    return ok ? 0 : 1;
}
