"""C16 - Argument-value comparison is a coherent order, blind to range compression."""
import os
import vlib
from vlib import Obl

LEVEL = "proof"
PID = "C16"
FUNCTIONS = ["rtosc_arg_vals_cmp_single", "rtosc_arg_vals_eq_single", "rtosc_arg_vals_cmp", "rtosc_arg_vals_eq",
             "rtosc_arg_vals_cmp_has_next", "rtosc_arg_vals_eq_after_abort", "get_default_cmp_options",
             "rtosc_arg_val_itr_init", "rtosc_arg_val_itr_get", "rtosc_arg_val_itr_next", "rtosc_arg_val_range_arg",
             "rtosc_arg_val_from_int", "rtosc_arg_val_mult", "rtosc_arg_val_add", "rtosc_avmessage",
             "rtosc_av_arr_type", "rtosc_av_arr_len", "rtosc_av_rep_num", "rtosc_av_rep_has_delta"]
SCALAR_TAGS = "icrhtfdmTFNI"
TRUSTED = ["CBMC 6.11.0"]
ASSUMPTIONS = []
RULE = "tbd"
EXPLANATION = "tbd"


def srcdefs(ctx, avmessage=False):
    """-D defines that make the harness include the working-tree files of ctx.repo verbatim."""
    q = lambda rel: '"%s"' % os.path.join(ctx.repo, rel)
    d = {"C16_ARG_EXT_C": q("src/cpp/arg-ext.c"), "C16_ARGVAL_MATH_C": q("src/cpp/arg-val-math.c"),
         "C16_ARGVAL_ITR_C": q("src/cpp/arg-val-itr.c"), "C16_ARGVAL_CMP_C": q("src/cpp/arg-val-cmp.c")}
    if avmessage:
        d.update({"C16_WITH_AVMESSAGE": None, "C16_UTIL_C": q("src/cpp/util.c"),
                  "C16_ARGVAL_C": q("src/cpp/arg-val.c"), "C16_RTOSC_C": q("src/rtosc.c")})
    return d


def prepare(ctx):
    pass


def scalar_obligations(ctx):
    inc = [os.path.join(ctx.repo, "src/cpp")]
    S = "harness/C16/scalar.c"
    UW = ["--unwind", "14", "--unwinding-assertions"]   # constant-bound loops only (memcmp of 4 bytes, tag table)
    obls = []

    def defs(entry, tag=None):
        d = srcdefs(ctx); d[entry] = None
        if tag:
            d["C16_TAG"] = str(ord(tag))
        return d
    for t in SCALAR_TAGS:
        obls.append(Obl("C16.scalar.%s" % t, PID, S, entry="h_scalar", defines=defs("H_SCALAR", t), includes=inc,
                        mode="proof", replayable=True, cbmc=UW, timeout=300,
                        functions=["rtosc_arg_vals_cmp_single", "rtosc_arg_vals_eq_single"], case={"tag": t}))
    for t in SCALAR_TAGS:
        obls.append(Obl("C16.scalar_mixed.%s" % t, PID, S, entry="h_scalar_mixed", defines=defs("H_SCALAR_MIXED", t),
                        includes=inc, mode="proof", replayable=True, cbmc=UW, timeout=300,
                        case={"left tag": t, "right tag": "every other scalar tag"}))
    obls.append(Obl("C16.spec_laws.scalars", PID, S, entry="h_spec_laws", defines=defs("H_SPEC_LAWS"), includes=inc,
                    mode="proof", replayable=True, cbmc=UW, timeout=300))
    obls.append(Obl("C16.canary.scalar", PID, S, entry="h_scalar", defines=defs("H_SCALAR", "t"), includes=inc,
                    mode="proof", cbmc=UW, canary=True, timeout=300))
    obls.append(Obl("C16.canary.spec_laws", PID, S, entry="h_spec_laws", defines=defs("H_SPEC_LAWS"), includes=inc,
                    mode="proof", cbmc=UW, canary=True, timeout=300))
    return obls


def strblob_obligations(ctx):
    inc = [os.path.join(ctx.repo, "src/cpp")]
    S = "harness/C16/strblob.c"
    UW = ["--unwind", "8", "--unwinding-assertions"]
    obls = []
    for t in "sS":
        d = srcdefs(ctx); d.update({"H_STRING": None, "C16_TAG": str(ord(t))})
        obls.append(Obl("C16.string.%s.symlen" % t, PID, S, entry="h_string", defines=d, includes=inc, mode="bounded",
                        bound="strings of 0..3 non-NUL bytes", cbmc=UW, timeout=300))
        d = srcdefs(ctx); d.update({"H_STRING_NULL": None, "C16_TAG": str(ord(t))})
        obls.append(Obl("C16.string.%s.null" % t, PID, S, entry="h_string_null", defines=d, includes=inc, mode="bounded",
                        bound="NULL string vs NULL string or string of 0..3 non-NUL bytes", cbmc=UW, timeout=300))
    for case, txt in (("samelen", "of equal length"), ("difflen", "of different length")):
        d = srcdefs(ctx); d.update({"H_BLOB": None, "C16_BLOB_" + case.upper(): None})
        obls.append(Obl("C16.blob.%s" % case, PID, S, entry="h_blob", defines=d, includes=inc, mode="bounded",
                        bound="two blobs of 0..3 bytes " + txt, cbmc=UW, timeout=300))
    d = srcdefs(ctx); d.update({"H_STRING": None, "C16_TAG": str(ord("s"))})
    obls.append(Obl("C16.canary.string", PID, S, entry="h_string", defines=d, includes=inc, mode="bounded",
                    bound="strings of 0..3 non-NUL bytes", cbmc=UW, canary=True, timeout=300))
    d = srcdefs(ctx); d.update({"H_BLOB": None})
    obls.append(Obl("C16.canary.blob", PID, S, entry="h_blob", defines=d, includes=inc, mode="bounded",
                    bound="blobs of 0..3 bytes", cbmc=UW, canary=True, timeout=300))
    return obls


ARRAY_TYPES = "icrhtfdmsSbTFNI"
ARRAY_TIMEOUT = 900


def array_pairs(tier):
    same = [(t, t) for t in ARRAY_TYPES]
    if tier != "quick":
        return [(a, b) for a in ARRAY_TYPES for b in ARRAY_TYPES if a <= b]
    # quick: every same-type pair, boolean arrays against each other and against one type from each side of
    # 'F' < 'I' < 'N' < 'S' < 'T' < lower case, and a few unrelated pairs
    cross = [("F", "T"), ("T", "i"), ("F", "i"), ("F", "S"), ("S", "T"), ("F", "I"), ("N", "T"), ("F", "N"),
             ("T", "b"), ("f", "i"), ("S", "s"), ("d", "h"), ("I", "N")]
    return same + cross


def array_obligations(ctx):
    inc = [os.path.join(ctx.repo, "src/cpp")]
    S = "harness/C16/array.c"
    UW = ["--unwind", "6", "--unwinding-assertions"]
    obls = []
    for a, b in array_pairs(ctx.tier):
        # boolean x boolean: 7 x 7 T/F mixes; split by the two lengths to keep each run short
        splits = [(l, r) for l in range(3) for r in range(3)] if (a in "TF" and b in "TF") else [None]
        for sp in splits:
            d = srcdefs(ctx); d.update({"H_ARRAY": None, "C16_LT": str(ord(a)), "C16_RT": str(ord(b))})
            name = "C16.array.%s_%s" % (a, b)
            if sp is not None:
                d["C16_LN"] = str(sp[0]); d["C16_RN"] = str(sp[1]); name += ".l%d_r%d" % sp
            obls.append(Obl(name, PID, S, entry="h_array", defines=d, includes=inc, mode="bounded",
                            bound="arrays of 0..2 elements (no nested arrays; string/blob elements of 0..1 bytes), both directions",
                            cbmc=UW, timeout=ARRAY_TIMEOUT, mem_gb=6,
                            case={"left element type": a, "right element type": b,
                                  "lengths": "0..2 x 0..2" if sp is None else "%d x %d" % sp}))
    d = srcdefs(ctx); d.update({"H_SPEC_LAWS_ARRAY": None})
    obls.append(Obl("C16.spec_laws.arrays", PID, S, entry="h_spec_laws_array", defines=d, includes=inc, mode="bounded",
                    bound="spec only: three arrays of 0..2 elements, element types F T I N S i h", cbmc=UW, timeout=100))
    obls.append(Obl("C16.canary.spec_laws_arrays", PID, S, entry="h_spec_laws_array", defines=d, includes=inc,
                    mode="bounded", bound="spec only", cbmc=UW, canary=True, timeout=100))
    d = srcdefs(ctx); d.update({"H_ARRAY": None, "C16_LT": str(ord("i")), "C16_RT": str(ord("i"))})
    obls.append(Obl("C16.canary.array", PID, S, entry="h_array", defines=d, includes=inc, mode="bounded",
                    bound="arrays of 0..2 elements", cbmc=UW, canary=True, timeout=100))
    return obls


def obligations(ctx):
    return scalar_obligations(ctx) + strblob_obligations(ctx) + array_obligations(ctx)
