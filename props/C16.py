"""C16 - Argument-value comparison is a coherent order, blind to range compression."""
import os
import vlib
from vlib import Obl

LEVEL = "proof"
PID = "C16"
FUNCTIONS = ["rtosc_arg_vals_cmp_single", "rtosc_arg_vals_eq_single", "rtosc_arg_vals_cmp", "rtosc_arg_vals_eq",
             "rtosc_arg_vals_cmp_has_next", "rtosc_arg_vals_eq_after_abort", "get_default_cmp_options",
             "rtosc_arg_val_itr_init", "rtosc_arg_val_itr_get", "rtosc_arg_val_itr_next", "rtosc_arg_val_range_arg",
             "rtosc_arg_val_from_int", "rtosc_arg_val_mult", "rtosc_arg_val_add", "rtosc_avmessage",
             "rtosc_av_arr_type", "rtosc_av_arr_len", "rtosc_av_rep_num", "rtosc_av_rep_has_delta"]
SCALAR_TAGS = "icrhtfdmTFNI"
TRUSTED = ["CBMC 6.11.0 (goto-cc, cbmc; built-in SAT back end minisat2), its memcmp/strcmp/strchr/memcpy/memset/strlen models",
           "spec/cmp_spec.h (the executable order, written from the property statement; its own laws are obligations C16.spec_laws.*)",
           "x86-64 LP64 bit-vector and IEEE-754 semantics; shipped flags -DNDEBUG (asserts compiled out)"]
ASSUMPTIONS = [
    "numbers exclude NaN (f, d); default options only (opt == NULL or get_default_cmp_options(): tolerance 0)",
    "proof obligations (C16.scalar.*, C16.scalar_mixed.*, C16.spec_laws.scalars) are loop-free over ALL payload bit patterns and all "
    "bytes of the argument union that the tag's member does not cover; the only loops are constant-bound (memcmp of 4 MIDI bytes, tag table)",
    "types the statement does not order explicitly: c and r are ordered as the 32 bit integer they are stored as, m bytewise, "
    "values of different type by type character, T F N I equal to themselves (DESIGN C16)",
    "NULL strings: eq_single and cmp(NULL,NULL) are checked; cmp_single(NULL string, non-NULL string) compares pointers relationally "
    "(undefined in ISO C, no CBMC model) and is NOT checked (findings/c16_null_string_witness.c shows the native behaviour)",
    "bounded: strings/blobs of 0..3 bytes (lengths symbolic, exact-size heap objects, full byte alphabet, strings without embedded NUL)",
    "bounded: arrays of 0..2 elements, no nested arrays, string/blob elements of 0..1 bytes, element types and lengths fixed per run "
    "(all nine length pairs and all T/F mixes enumerated in constant loops), padding bytes 1..3 of the packed array header zero",
    "bounded: lists with <=3 expanded values (quick: listed shapes; thorough: every block sequence over i h T plus the c/F shapes), range "
    "blocks with rep_num 1..3, delta only for c i h, precondition start + j*delta stays inside the type; no infinite ranges (rep_num 0), "
    "no ranges of strings/floats",
    "bounded: ranges of arrays (C16.list_arrange_*): one delta-less block 'N x [array]', N 1..3, array of 0..2 elements of type i, h or "
    "T/F mixed, optional plain i before/after, exact-size heap lists; third list = same structure with N-1, N, N+1 arrays and own payloads",
    "rtosc_avmessage obligations: at least one value (0 values declare a zero-length VLA: undefined), no T/F block before a payload block",
    "a read past an exact-size list/array makes an element type symbolic and CBMC then does not finish (timeout = exit 2, undecided), it is not reported as a violation",
]
RULE = ("one obligation per scalar tag (proof, full domain) and per generated shape (bounded): string tag, blob length relation, array "
        "element-type pair (x length pair for boolean arrays), list shape x {eq, cmp, itr, avmsg}; non-trivial = >0 cbmc properties; "
        "canary obligations (V_COVER goals must be reachable) guard every harness family")
EXPLANATION = ("Pairs: the real cmp/eq functions agree with the executable order spec_sign on every pair inside the domain (scalars: all "
               "bit patterns, proof; composites: bounded); the laws (reflexive, antisymmetric, transitive, 0 <=> equal) are proved about the "
               "spec and additionally asserted on the code's own results. Ranges: compressed list, expansion and re-compression are eq / "
               "cmp 0, have the same sign against a third list, iterate to the expansion and build byte-identical messages.")

def srcdefs(ctx, avmessage=False):
    """-D defines that make the harness include the working-tree files of ctx.repo verbatim."""
    q = lambda rel: '"%s"' % os.path.join(ctx.repo, rel)
    d = {"C16_ARG_EXT_C": q("src/cpp/arg-ext.c"), "C16_ARGVAL_MATH_C": q("src/cpp/arg-val-math.c"),
         "C16_ARGVAL_ITR_C": q("src/cpp/arg-val-itr.c"), "C16_ARGVAL_CMP_C": q("src/cpp/arg-val-cmp.c")}
    if avmessage:
        d.update({"C16_WITH_AVMESSAGE": None, "C16_UTIL_C": q("src/cpp/util.c"),
                  "C16_ARGVAL_C": q("src/cpp/arg-val.c"), "C16_RTOSC_C": q("src/rtosc.c")})
    return d


def prepare(ctx):
    pass


def scalar_obligations(ctx):
    inc = [os.path.join(ctx.repo, "src/cpp")]
    S = "harness/C16/scalar.c"
    UW = ["--unwind", "14", "--unwinding-assertions"]   # constant-bound loops only (memcmp of 4 bytes, tag table)
    obls = []

    def defs(entry, tag=None):
        d = srcdefs(ctx); d[entry] = None
        if tag:
            d["C16_TAG"] = str(ord(tag))
        return d
    for t in SCALAR_TAGS:
        obls.append(Obl("C16.scalar.%s" % t, PID, S, entry="h_scalar", defines=defs("H_SCALAR", t), includes=inc,
                        mode="proof", replayable=True, cbmc=UW, timeout=300,
                        functions=["rtosc_arg_vals_cmp_single", "rtosc_arg_vals_eq_single"], case={"tag": t}))
    for t in SCALAR_TAGS:
        obls.append(Obl("C16.scalar_mixed.%s" % t, PID, S, entry="h_scalar_mixed", defines=defs("H_SCALAR_MIXED", t),
                        includes=inc, mode="proof", replayable=True, cbmc=UW, timeout=300,
                        case={"left tag": t, "right tag": "every other scalar tag"}))
    obls.append(Obl("C16.spec_laws.scalars", PID, S, entry="h_spec_laws", defines=defs("H_SPEC_LAWS"), includes=inc,
                    mode="proof", replayable=True, cbmc=UW, timeout=300))
    obls.append(Obl("C16.canary.scalar", PID, S, entry="h_scalar", defines=defs("H_SCALAR", "t"), includes=inc,
                    mode="proof", cbmc=UW, canary=True, timeout=300))
    obls.append(Obl("C16.canary.spec_laws", PID, S, entry="h_spec_laws", defines=defs("H_SPEC_LAWS"), includes=inc,
                    mode="proof", cbmc=UW, canary=True, timeout=300))
    return obls


def strblob_obligations(ctx):
    inc = [os.path.join(ctx.repo, "src/cpp")]
    S = "harness/C16/strblob.c"
    UW = ["--unwind", "8", "--unwinding-assertions"]
    obls = []
    for t in "sS":
        d = srcdefs(ctx); d.update({"H_STRING": None, "C16_TAG": str(ord(t))})
        obls.append(Obl("C16.string.%s.symlen" % t, PID, S, entry="h_string", defines=d, includes=inc, mode="bounded",
                        bound="strings of 0..3 non-NUL bytes", cbmc=UW, timeout=300))
        d = srcdefs(ctx); d.update({"H_STRING_NULL": None, "C16_TAG": str(ord(t))})
        obls.append(Obl("C16.string.%s.null" % t, PID, S, entry="h_string_null", defines=d, includes=inc, mode="bounded",
                        bound="NULL string vs NULL string or string of 0..3 non-NUL bytes", cbmc=UW, timeout=300))
        d = dict(d); d["H_NULL_CMP_NONZERO"] = None
        obls.append(Obl("C16.string.%s.null_cmp_nonzero" % t, PID, S, entry="h_string_null", defines=d, includes=inc, mode="bounded",
                        bound="NULL string vs string of 0..3 non-NUL bytes; pointer checks off (the code orders the two pointers)",
                        cbmc=UW + ["--no-pointer-check"], timeout=300))
    for case, txt in (("samelen", "of equal length"), ("difflen", "of different length")):
        d = srcdefs(ctx); d.update({"H_BLOB": None, "C16_BLOB_" + case.upper(): None})
        obls.append(Obl("C16.blob.%s" % case, PID, S, entry="h_blob", defines=d, includes=inc, mode="bounded",
                        bound="two blobs of 0..3 bytes " + txt, cbmc=UW, timeout=300))
    d = srcdefs(ctx); d.update({"H_STRING": None, "C16_TAG": str(ord("s"))})
    obls.append(Obl("C16.canary.string", PID, S, entry="h_string", defines=d, includes=inc, mode="bounded",
                    bound="strings of 0..3 non-NUL bytes", cbmc=UW, canary=True, timeout=300))
    d = srcdefs(ctx); d.update({"H_BLOB": None})
    obls.append(Obl("C16.canary.blob", PID, S, entry="h_blob", defines=d, includes=inc, mode="bounded",
                    bound="blobs of 0..3 bytes", cbmc=UW, canary=True, timeout=300))
    return obls


ARRAY_TYPES = "icrhtfdmsSbTFNI"
ARRAY_TIMEOUT = 900


def array_pairs(tier):
    if tier != "quick":
        return [(a, b) for a in ARRAY_TYPES for b in ARRAY_TYPES if a <= b]
    # quick: same-type pairs of five representative types, boolean arrays against each other (F_T: every T/F mix) and
    # against one type from each side of 'F' < 'I' < 'N' < 'S' < 'T' < lower case, and a few unrelated pairs
    same = [(t, t) for t in "ihfbt"]
    cross = [("F", "T"), ("T", "i"), ("F", "i"), ("F", "S"), ("S", "T"), ("F", "I"), ("N", "T"), ("T", "b"), ("f", "i"), ("S", "s")]
    return same + cross


def array_obligations(ctx):
    inc = [os.path.join(ctx.repo, "src/cpp")]
    S = "harness/C16/array.c"
    UW = ["--unwind", "6", "--unwinding-assertions"]
    obls = []
    for a, b in array_pairs(ctx.tier):
        # boolean x boolean: 7 x 7 T/F mixes; split by the two lengths to keep each run short
        # (2 x 2 elements: 16 mixes, split once more by the left mix: symex time is superlinear in the iterations)
        splits = [None]
        if a in "TF" and b in "TF":
            splits = [(l, r, None) for l in range(3) for r in range(3) if (l, r) != (2, 2)] + [(2, 2, (0, 1)), (2, 2, (2, 3))]
        for sp in splits:
            d = srcdefs(ctx); d.update({"H_ARRAY": None, "C16_LT": str(ord(a)), "C16_RT": str(ord(b))})
            name = "C16.array.%s_%s" % (a, b)
            if sp is not None:
                d["C16_LN"] = str(sp[0]); d["C16_RN"] = str(sp[1]); name += ".l%d_r%d" % sp[:2]
                if sp[2]:
                    d["C16_LMIX_LO"] = str(sp[2][0]); d["C16_LMIX_HI"] = str(sp[2][1]); name += ".m%d%d" % sp[2]
            obls.append(Obl(name, PID, S, entry="h_array", defines=d, includes=inc, mode="bounded",
                            bound="arrays of 0..2 elements (no nested arrays; string/blob elements of 0..1 bytes), both directions",
                            cbmc=UW, timeout=ARRAY_TIMEOUT, mem_gb=6,
                            case={"left element type": a, "right element type": b,
                                  "lengths": "0..2 x 0..2" if sp is None else "%d x %d" % sp[:2]}))
    d = srcdefs(ctx); d.update({"H_SPEC_LAWS_ARRAY": None})
    obls.append(Obl("C16.spec_laws.arrays", PID, S, entry="h_spec_laws_array", defines=d, includes=inc, mode="bounded",
                    bound="spec only: three arrays of 0..2 elements, element types F T I N S i h", cbmc=UW, timeout=600))
    obls.append(Obl("C16.canary.spec_laws_arrays", PID, S, entry="h_spec_laws_array", defines=d, includes=inc,
                    mode="bounded", bound="spec only", cbmc=UW, canary=True, timeout=600))
    d = srcdefs(ctx); d.update({"H_ARRAY": None, "C16_LT": str(ord("i")), "C16_RT": str(ord("i"))})
    obls.append(Obl("C16.canary.array", PID, S, entry="h_array", defines=d, includes=inc, mode="bounded",
                    bound="arrays of 0..2 elements", cbmc=UW, canary=True, timeout=600))
    return obls


# ---- list shapes: sequence of blocks (type, rep, has_delta); rep 0 = plain value, rep >= 1 = range block
def P(t): return (t, 0, 0)
def R(t, k, delta=0): return (t, k, delta)


def shape_key(sh):
    return "_".join(("%s" % t) if k == 0 else "%d%s%s" % (k, "d" if d else "x", t) for t, k, d in sh) or "empty"


def shape_len(sh):
    return sum(k or 1 for _, k, _ in sh)


QUICK_SHAPES = [
    [], [P("i")], [R("i", 3)], [R("i", 3, 1)], [R("c", 2, 1), P("T")], [R("T", 3)],      # (3dh: thorough only, 40..90 s)
    [R("F", 2), P("i")], [P("i"), R("i", 2)], [R("h", 2), P("h")], [R("i", 1)], [R("i", 1, 1)],
    [R("i", 2, 1), R("c", 1)], [P("T"), R("i", 2, 1)], [P("h"), P("i"), P("F")], [R("c", 3)], [R("h", 2, 1), P("h")],
]


def list_shapes(tier):
    if tier == "quick":
        return QUICK_SHAPES
    def kinds_of(types):
        kinds = {1: [], 2: [], 3: []}
        for t in types:
            kinds[1] += [P(t), R(t, 1)] + ([R(t, 1, 1)] if t != "T" else [])
            for k in (2, 3):
                kinds[k] += [R(t, k)] + ([R(t, k, 1)] if t != "T" else [])
        return kinds
    out = [[]]

    def rec(kinds, prefix, left):
        for m in (1, 2, 3):
            if m > left:
                break
            for b in kinds[m]:
                sh = prefix + [b]
                out.append(sh)
                rec(kinds, sh, left - m)
    rec(kinds_of("iT"), [], 3)            # every block sequence over i, T with <= 3 expanded values
    rec(kinds_of("ihT"), [], 2)           # with h: <= 2 expanded values, and every single h block
    out += [[b] for b in kinds_of("h")[3]]
    uniq, seen0 = [], set()
    for sh in out:
        if shape_key(sh) not in seen0:
            seen0.add(shape_key(sh)); uniq.append(sh)
    out = uniq
    seen = set(shape_key(s) for s in out)
    for sh in QUICK_SHAPES:          # the c / F shapes of the quick tier
        if shape_key(sh) not in seen:
            out.append(sh)
    return out


def valueless_before_payload(sh):
    seen_valueless = False
    for t, _, _ in sh:
        if t in "TFNI":
            seen_valueless = True
        elif seen_valueless:
            return True
    return False


# rtosc_avmessage mis-indexed its value array when T/F/N/I preceded payload tags (repaired in f47a4b9, property C01);
# as instructed such shapes are left out of the avmessage obligations. Set to True to include them.
AVMSG_VALUELESS_BEFORE_PAYLOAD = False


def list_obligations(ctx):
    inc = [os.path.join(ctx.repo, "src/cpp")]
    S = "harness/C16/list.c"
    obls = []
    bound = "shape-bounded: <=3 expanded values, range blocks with rep_num<=3, types c i h (with/without delta) T F (without); start values, deltas and the third list symbolic"
    for sh in list_shapes(ctx.tier):
        key = shape_key(sh)
        blocks = "".join("{%d,%d,%d}," % (ord(t), k, d) for t, k, d in sh)
        case = {"blocks": [list(b) for b in sh]}
        for xrot in ([0, 1] if len(set(t for t, _, _ in sh)) > 1 else [0]):
            d = srcdefs(ctx); d.update({"H_LIST_CMP": None, "LS_BLOCKS": blocks, "LS_XROT": str(xrot)})
            obls.append(Obl("C16.list_cmp.%s%s" % (key, ".xrot" if xrot else ""), PID, S, entry="h_list_cmp", defines=d,
                            includes=inc, mode="bounded", bound=bound, cbmc=["--unwind", "12", "--unwinding-assertions"],
                            timeout=LIST_TIMEOUT, case=dict(case, third_list_types_rotated=xrot)))
        d = srcdefs(ctx); d.update({"H_LIST_EQ": None, "LS_BLOCKS": blocks})
        obls.append(Obl("C16.list_eq.%s" % key, PID, S, entry="h_list_eq", defines=d, includes=inc, mode="bounded",
                        bound=bound, cbmc=["--unwind", "12", "--unwinding-assertions"], timeout=LIST_TIMEOUT, case=case))
        d = srcdefs(ctx); d.update({"H_LIST_ITR": None, "LS_BLOCKS": blocks})
        obls.append(Obl("C16.list_itr.%s" % key, PID, S, entry="h_list_itr", defines=d, includes=inc, mode="bounded",
                        bound=bound, cbmc=["--unwind", "12", "--unwinding-assertions"], timeout=LIST_TIMEOUT, case=case))
        if shape_len(sh) > 0 and (AVMSG_VALUELESS_BEFORE_PAYLOAD or not valueless_before_payload(sh)):
            d = srcdefs(ctx, avmessage=True); d.update({"H_LIST_AVMSG": None, "LS_BLOCKS": blocks})
            obls.append(Obl("C16.list_avmsg.%s" % key, PID, S, entry="h_list_avmsg", defines=d, includes=inc,
                            mode="bounded", bound=bound, cbmc=["--unwind", "50", "--unwinding-assertions"],
                            timeout=LIST_TIMEOUT, case=case))
    sh = [R("i", 2, 1), P("h")]
    blocks = "".join("{%d,%d,%d}," % (ord(t), k, d) for t, k, d in sh)
    for ent, extra, uw in (("h_list_eq", {"H_LIST_EQ": None}, "12"), ("h_list_cmp", {"H_LIST_CMP": None}, "12"), ("h_list_itr", {"H_LIST_ITR": None}, "12"),
                           ("h_list_avmsg", {"H_LIST_AVMSG": None}, "50")):
        d = srcdefs(ctx, avmessage=(ent == "h_list_avmsg")); d.update(extra); d["LS_BLOCKS"] = blocks
        obls.append(Obl("C16.canary.%s" % ent[2:], PID, S, entry=ent, defines=d, includes=inc, mode="bounded", bound=bound,
                        cbmc=["--unwind", uw, "--unwinding-assertions"], canary=True, timeout=LIST_TIMEOUT))
    return obls


# ---- ranges whose repeated value is an array: (rep, len, element type, T/F mix bits, pre, post)
def ar_key(sh):
    rep, n, et, mix, pre, post = sh
    if et == "T":
        elems = "".join("T" if (mix >> k) & 1 else "F" for k in range(n))
    else:
        elems = et * n
    return "%s%dx_%s_%s" % ("p_" if pre else "", rep, elems or "empty", "p" if post else "e")


AR_QUICK = [(1, 1, "i", 0, 0, 0), (2, 2, "i", 0, 0, 1), (3, 2, "T", 1, 1, 0), (2, 0, "i", 0, 1, 1), (3, 1, "h", 0, 0, 1)]


def ar_shapes(tier):
    if tier == "quick":
        return AR_QUICK
    out = list(AR_QUICK)
    kinds = [(n, "i", 0) for n in range(3)] + [(n, "T", m) for n in range(3) for m in range(1 << n)]
    for rep in (1, 2, 3):
        for n, et, mix in kinds:
            for pre, post in ((0, 0), (0, 1), (1, 1)):
                out.append((rep, n, et, mix, pre, post))
    out += [(2, 2, "h", 0, 0, 0), (1, 2, "h", 0, 1, 1), (2, 1, "h", 0, 1, 0)]
    uniq, seen = [], set()
    for sh in out:
        if ar_key(sh) not in seen:
            seen.add(ar_key(sh)); uniq.append(sh)
    return uniq


AR_TIMEOUT = 240


def array_range_obligations(ctx):
    inc = [os.path.join(ctx.repo, "src/cpp")]
    S = "harness/C16/arrrange.c"
    bound = ("shape-bounded: one delta-less range block 'N x [array]', N = 1..3, array of 0..2 elements (i, h, T/F mixed), optional plain "
             "value before/after; exact-size heap lists; element payloads and the third list symbolic")
    obls = []

    def flags(sh, kxmax):
        rep, n, et, mix, pre, post = sh
        # the loops of eq/cmp run over min(values of both sides) <= pre+rep+post at list level and over n array elements
        lb = max(pre + rep + post, n) + 1
        # recursion list -> array -> element needs depth 2: cut at 3, so that an element type that became arbitrary
        # (a read outside an object) ends in the pointer failure instead of unwinding eq_single <-> eq 12 deep
        return ["--unwind", "12", "--unwinding-assertions", "--unwindset",
                "rtosc_arg_vals_eq_single:3,rtosc_arg_vals_eq:3,rtosc_arg_vals_cmp_single:3,rtosc_arg_vals_cmp:3,"
                "rtosc_arg_vals_eq.0:%d,rtosc_arg_vals_cmp.0:%d,memcmp.0:2,strcmp.0:2" % (lb, lb)]

    def defs(sh, entry, extra=None):
        rep, n, et, mix, pre, post = sh
        d = srcdefs(ctx)
        d.update({entry: None, "AR_REP": str(rep), "AR_LEN": str(n), "AR_ET": str(ord(et)), "AR_MIX": str(mix),
                  "AR_PRE": str(pre), "AR_POST": str(post)})
        d.update(extra or {})
        return d
    for sh in ar_shapes(ctx.tier):
        key = ar_key(sh)
        rep = sh[0]
        case = dict(zip(("rep_num", "array length", "element type", "T/F mix bits", "plain value before", "plain value after"), sh))
        obls.append(Obl("C16.list_arrange_eq.%s" % key, PID, S, entry="h_ar_eq", defines=defs(sh, "H_AR_EQ"), includes=inc,
                        mode="bounded", bound=bound, cbmc=flags(sh, rep), timeout=AR_TIMEOUT, case=case))
        obls.append(Obl("C16.list_arrange_eq1.%s" % key, PID, S, entry="h_ar_eq", defines=defs(sh, "H_AR_EQ", {"AR_ONECALL": None}),
                        includes=inc, mode="bounded", bound=bound, cbmc=flags(sh, rep), timeout=AR_TIMEOUT, mem_gb=12, case=case))
        obls.append(Obl("C16.list_arrange_itr.%s" % key, PID, S, entry="h_ar_itr", defines=defs(sh, "H_AR_ITR"), includes=inc,
                        mode="bounded", bound=bound, cbmc=flags(sh, rep), timeout=AR_TIMEOUT, case=case))
        for kx in (rep - 1, rep, rep + 1):
            obls.append(Obl("C16.list_arrange_cmp.%s.x%d" % (key, kx), PID, S, entry="h_ar_cmp",
                            defines=defs(sh, "H_AR_CMP", {"AR_KX_LO": str(kx), "AR_KX_HI": str(kx)}), includes=inc,
                            mode="bounded", bound=bound, cbmc=flags(sh, rep + 1), timeout=AR_TIMEOUT,
                            case=dict(case, arrays_in_third_list=kx)))
    sh = (2, 2, "i", 0, 1, 1)
    for ent, macro, extra in (("h_ar_eq", "H_AR_EQ", None), ("h_ar_itr", "H_AR_ITR", None),
                              ("h_ar_cmp", "H_AR_CMP", {"AR_KX_LO": "2", "AR_KX_HI": "2"})):
        obls.append(Obl("C16.canary.list_arrange_%s" % ent[5:], PID, S, entry=ent, defines=defs(sh, macro, extra), includes=inc,
                        mode="bounded", bound=bound, cbmc=flags(sh, 3), canary=True, timeout=AR_TIMEOUT))
    return obls


LIST_TIMEOUT = 600


def obligations(ctx):
    return (scalar_obligations(ctx) + strblob_obligations(ctx) + array_obligations(ctx) + list_obligations(ctx)
            + array_range_obligations(ctx))
