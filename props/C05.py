"""C05 - Path-pattern matching follows the documented pattern language."""
import os
import vlib
from vlib import Obl

LEVEL = "model_checking"
FUNCTIONS = ["rtosc_match_number", "rtosc_match_options", "rtosc_match_path", "rtosc_match_args", "rtosc_match",
             "rtosc_argument_string"]
TRUSTED = []
ASSUMPTIONS = []
RULE = ""
EXPLANATION = ""

LOOPS = ["dispatch_match.loops"]


def prepare(ctx):
    vlib.prepare_injected(ctx, LOOPS, ["src/dispatch.c"])


def proof_obligations(ctx):
    inj = '"%s"' % os.path.join(ctx.inj, "inj_dispatch.c")
    P = "harness/C05/proof.c"
    return [
        Obl("C05.rtosc_match_number.contract", "C05", P, entry="h_match_number", enforce="rtosc_match_number",
            replace=["atoi"], loops=True, defines={"DISPATCH_C": inj}, termination=True, functions=["rtosc_match_number"],
            assumed=["atoi"], instr=["--no-malloc-may-fail"], timeout=600),
        Obl("C05.rtosc_match_path.contract", "C05", P, entry="h_match_path", enforce="rtosc_match_path",
            replace=["rtosc_match_options", "rtosc_match_number"], loops=True, defines={"DISPATCH_C": inj}, termination=True,
            functions=["rtosc_match_path"], instr=["--no-malloc-may-fail"], timeout=900),
        Obl("C05.rtosc_match_options.contract", "C05", P, entry="h_match_options", enforce="rtosc_match_options",
            loops=True, defines={"DISPATCH_C": inj}, functions=["rtosc_match_options"], instr=["--no-malloc-may-fail"],
            mode="bounded", bound="at most %d alternatives tried (goto retry unwound); string lengths 1..4096 under loop contracts" % 3,
            cbmc=["--unwindset", "rtosc_match_options.3:%d" % 3, "--no-unwinding-assertions"], replayable=False, timeout=900),
    ]


def obligations(ctx):
    return proof_obligations(ctx)
