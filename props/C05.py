"""C05 - Path-pattern matching follows the documented pattern language.

Obligation families (see DESIGN.md "### C05"):
  C05.rtosc_match_number.contract   [proof]   memory safety + termination, strings of any length 1..4096
  C05.rtosc_match_path.contract     [proof]   same, callees replaced by their contracts
  C05.rtosc_match_options.contract  [bounded] same contract, all loops unwound, strings <= OPT_N bytes
  C05.match.*                       [bounded] rtosc_match == spec_match, generated pattern batches x symbolic messages
  C05.prefix_alt.* / C05.colon_addr.* [bounded] the same harness restricted to the two known signatures
  C05.index.*                       [bounded] enumeration clause with symbolic digits (up to 9 on both sides)
  C05.args_exact.*                  [bounded] type clause on messages in exact-size objects (memory safety)
`python3 props/C05.py [quick|thorough]` lists the generated patterns.
"""
import os, re, sys, random, subprocess, itertools
sys.path.insert(0, os.path.join(os.path.dirname(os.path.abspath(__file__)), "..", "tools"))
import vlib
from vlib import Obl

LEVEL = "model_checking"
FUNCTIONS = ["rtosc_match_number", "rtosc_match_options", "rtosc_match_path", "rtosc_match_args", "rtosc_match",
             "rtosc_argument_string"]
TRUSTED = ["CBMC 6.11.0 (goto-cc, goto-instrument --dfcc, cbmc; built-in SAT back ends: MiniSat, and CaDiCaL for the rtosc_match_path "
           "proof), its models of isdigit, atoi/strtol, malloc",
           "spec/pattern_spec.h (executable pattern language, written from the property statement and doc/Guide.adoc; "
           "cross-checked natively against an independent recursive matcher on 2e9 pattern/message pairs)",
           "x86-64 LP64 bit-vector semantics; shipped flags -DNDEBUG (asserts compiled out)"]
OPT_N = {"quick": 12, "thorough": 24}
ASSUMPTIONS = [
    "proof obligations: both strings are NUL-terminated objects of any size 1..4096 with arbitrary content; cursors start at any offset",
    "atoi is replaced by an ASSUMED libc contract in the proof obligations (reads the string it is given, writes nothing); "
    "the bounded obligations run CBMC's atoi/strtol model",
    "rtosc_match_options cannot be verified with loop contracts (its `retry:` label shares the head of `while(1)`; goto-instrument "
    "coalesces the two back edges into the contract-less `goto retry` latch): its contract is proved for strings of <= %d (quick) / "
    "%d (thorough) bytes only and is ASSUMED beyond that in the rtosc_match_path proof" % (OPT_N["quick"], OPT_N["thorough"]),
    "rtosc_match_args is recursive over the type alternatives: bounded obligations only",
    "bounded obligations: patterns are the concrete strings enumerated by props/C05.py (wf_pattern holds, checked in the harness); "
    "per obligation the address length is fixed, every address byte is symbolic over ALL non-NUL bytes except ':' (addresses with ':' "
    "have their own obligations C05.match.colon.* / C05.colon_addr.*), the type tag string is 0..3 arbitrary non-NUL bytes, the bytes "
    "behind it are arbitrary",
    "address not empty when the pattern has type alternatives (rtosc_argument_string: assert(msg && *msg))",
    "spec reading: alternatives with backtracking; an index is the maximal digit run; '/' that is not last is literal text; patterns "
    "where another enumeration, or an alternative that is empty or starts with a digit, directly follows #N are not well-formed "
    "(statement ambiguous there); "
    "'*' wildcard, '?', '[', ']' are outside the documented form",
    "type clause is a band: equal to an alternative => must match; neither equal nor an extension => must not; proper extension => either",
    "C05.match.* give the message 8 arbitrary bytes of slack behind the type tags (result must not depend on them); reads outside an "
    "exact-size message are the business of C05.args_exact.*",
]
BATCH = 8
RULE = ("proof: one obligation per function under contract; bounded: one obligation per (batch of <= %d generated patterns with the "
        "same features, address length), per digit-count shape of the enumeration clause, per exact-size message; "
        "non-trivial = generated >0 cbmc properties; distinct by obligation name" % BATCH)
EXPLANATION = ("The main sentence (match exactly when ...) is decided bounded-exhaustively: rtosc_match against spec_match for every "
               "generated pattern x every message inside the stated bound. Memory safety and termination of rtosc_match_number and "
               "rtosc_match_path hold for strings of any length (proof mode).")

LOOPS = ["dispatch_match.loops"]

# ------------------------------------------------------------------------------------------------ generator
LIT = ["a", "b", "/", "1"]
ENUM = ["#2", "#10"]
ALT = ["{a,b}", "{ab,ba}", "{a/,b1}"]
ALT_KF = ["{a,ab}", "{ab,a}", "{,a}", "{a,}", "{b,ab,a}"]          # some alternative is a proper prefix of another
TYPES_MAIN = ["", ":i:f"]
TYPES_ALL = [":", ":i", ":ii", ":i:f", "::i", ":if:", ":f:ii:i", ":iii", ":T:F", ":s:", ":ifs:if"]
TYPE_PATHS = ["a", "ab/", "#2", "a#10/", "{a,b}", "b{ab,ba}/"]
QUICK_DEPTH3 = ["a#2b", "a#10/b", "#2/#2", "a{a,b}b", "{a,b}{ab,ba}a", "a/{a,b}/", "1#10{a,b}", "{a,b}#2/", "ab/a", "a1#2",
                "{a/,b1}#2", "#10{ab,ba}", "/a/", "b{a/,b1}a"]


def _paths(atoms, depth):
    out = []
    for d in range(0, depth + 1):
        for seq in itertools.product(atoms, repeat=d):
            out.append("".join(seq))
    return out


def _with_trailing(paths):
    out = []
    for p in paths:
        out.append(p)
        if not p.endswith("/"):
            out.append(p + "/")
    return out


def _random_patterns(n, seed, atoms, lo, hi):
    rnd = random.Random(0xC05 + seed)
    out = []
    for _ in range(n):
        k = rnd.randint(lo, hi)
        p = "".join(rnd.choice(atoms) for _ in range(k))
        if rnd.random() < 0.4 and not p.endswith("/"):
            p += "/"
        p += rnd.choice(TYPES_MAIN + TYPES_ALL[:6])
        out.append(p)
    return out


def classify(ctx, pats):
    """(wf, prefix_alternative) per pattern, computed by the spec's own predicates (harness/C05/classify.c)."""
    exe = os.path.join(ctx.scratch, "c05_classify")
    if not os.path.exists(exe):
        subprocess.run(["gcc", "-O1", "-I", os.path.join(vlib.VERIF, "spec"), os.path.join(vlib.VERIF, "harness/C05/classify.c"),
                        "-o", exe], check=True)
    r = subprocess.run([exe], input="\n".join(pats) + "\n", stdout=subprocess.PIPE, universal_newlines=True, check=True)
    rows = [l.split() for l in r.stdout.splitlines()]
    assert len(rows) == len(pats), "classifier returned %d rows for %d patterns" % (len(rows), len(pats))
    return [(a == "1", b == "1") for a, b in rows]


def generate(ctx):
    """returns (normal, kf): lists of well-formed patterns without / with a prefix alternative"""
    quick = ctx.tier == "quick"
    atoms = LIT + ENUM + (ALT[:2] if quick else ALT)        # quick: "{a/,b1}" only inside QUICK_DEPTH3 and the random patterns
    cand = []
    for p in _with_trailing(_paths(atoms, 2)):
        for t in TYPES_MAIN:
            cand.append(p + t)
    if not quick:   # depth 3: every path, alternately without and with type alternatives
        a3 = LIT + ENUM + ALT[:2]
        for i, p in enumerate(_with_trailing([q for q in _paths(a3, 3) if q not in set(_paths(a3, 2))])):
            cand.append(p + TYPES_MAIN[i % 2])
    if quick:       # a slice of depth 3: enumeration / alternatives between literals, '/' followed by more pattern
        for p in QUICK_DEPTH3:
            for t in TYPES_MAIN:
                cand.append(p + t)
    for p in TYPE_PATHS:
        for t in TYPES_ALL:
            cand.append(p + t)
    cand += _random_patterns(12 if quick else 64, ctx.seed, LIT + ENUM + ALT, 4, 6)
    # known finding family: prefix alternatives in a few contexts
    kfc = []
    ctxs = (("", ""), ("", "b"), ("a", "/:i")) if quick else \
        (("", ""), ("", "b"), ("a", "/:i"), ("", "c:i:f"), ("#2", "b"), ("/", "/"), ("a", "#2"), ("", "{a,b}"), ("b", "ab/"))
    for a in ALT_KF:
        for pre, post in ctxs:
            kfc.append(pre + a + post)
    seen, allp = set(), []
    for p in cand + kfc:
        if p not in seen:
            seen.add(p); allp.append(p)
    cls = classify(ctx, allp)
    normal = [p for p, (wf, kf) in zip(allp, cls) if wf and not kf]
    kfs = [p for p, (wf, kf) in zip(allp, cls) if wf and kf]
    return normal, kfs


# ------------------------------------------------------------------------------------------------ unwinding
def features(p):
    path = p.split(":", 1)[0]
    return ("#" in path, "{" in path, ":" in p)


def _elements(path):
    """number of loop iterations rtosc_match_path spends on a path: one per literal char, enumeration, {..} group"""
    return len(re.sub(r"\{[^}]*\}|#\d+", "X", path))


def unwind_flags(pats, al, whole=False):
    """per-loop bounds (= most back-edge takes on the unchanged code + 1). Without them the recursion of rtosc_match_args
    and the loops of functions a pattern never reaches are unwound to the global bound behind symbolic cursors
    (measured: 450 s instead of 3 s for a batch of {..} patterns). Every bound is guarded by --unwinding-assertions."""
    plen = max(len(p) for p in pats)
    paths = [p.split(":", 1)[0] for p in pats]
    has_e = any(features(p)[0] for p in pats)
    has_o = any(features(p)[1] for p in pats)
    typed = any(features(p)[2] for p in pats)
    nalts = max(p.count(":") for p in pats)
    altlen = max([len(a) for p in pats if ":" in p for a in p.split(":")[1:]] + [0])
    ndig = max([len(m) for p in pats for m in re.findall(r"#(\d+)", p)] + [0])
    groups = [g for p in paths for g in re.findall(r"\{([^}]*)\}", p)]
    grp = max([len(g) for g in groups] + [0])
    galts = max([g.count(",") + 1 for g in groups] + [0])
    gsum = max([len(g.replace(",", "")) for g in groups] + [0])
    galt = max([len(a) for g in groups for a in g.split(",")] + [0])
    us = {
        "rtosc_match_args": nalts + 1 if typed else 1,
        "rtosc_match_args.0": altlen + 1 if typed else 1,
        "rtosc_argument_string.0": al + 1 if typed else 1,
        "rtosc_argument_string.1": 5 if typed else 1,
        "rtosc_match_path.0": 1, "rtosc_match_path.1": 1,
        # whole: the address may spell the ':types' text too (colon-in-address), the path loop then walks the whole pattern
        "rtosc_match_path.2": max(_elements(p if whole else q) for p, q in zip(pats, paths)) + 1,
        "rtosc_match_options.0": gsum + 1 if has_o else 1,        # while(1): one take per spelled character
        "rtosc_match_options.1": grp + 1 if has_o else 1,         # skip to '}'
        "rtosc_match_options.2": galt + 1 if has_o else 1,        # skip the rest of one alternative
        "rtosc_match_options.3": galts if has_o else 1,           # goto retry: one take per further alternative
        "rtosc_match_number.0": ndig + 1 if has_e else 1,
        "rtosc_match_number.1": al + 1 if has_e else 1,
        "strtol.0": max(ndig, al) + 2 if has_e else 1,
    }
    glob = max(plen + 3, al + 3, len(pats) + 2, 14)
    return ["--unwind", str(glob), "--unwindset", ",".join("%s:%d" % kv for kv in sorted(us.items())),
            "--unwinding-assertions", "--drop-unused-functions"]


def cstr(p):
    return '"%s"' % p.replace("\\", "\\\\").replace('"', '\\"')


def key(p):
    """file-name safe rendering of a pattern"""
    tr = {"#": "N", "{": "(", "}": ")", ",": "+", "/": "_", ":": "-"}
    return "".join(tr.get(c, c) for c in p) or "empty"


# ------------------------------------------------------------------------------------------------ obligations
def prepare(ctx):
    vlib.prepare_injected(ctx, LOOPS, ["src/dispatch.c"])


def src_defines(ctx):
    return {"RTOSC_C": '"%s"' % os.path.join(ctx.repo, "src/rtosc.c"),
            "DISPATCH_C": '"%s"' % os.path.join(ctx.repo, "src/dispatch.c")}


def proof_obligations(ctx):
    inj = '"%s"' % os.path.join(ctx.inj, "inj_dispatch.c")
    raw = '"%s"' % os.path.join(ctx.repo, "src/dispatch.c")
    P = "harness/C05/proof.c"
    n = OPT_N[ctx.tier]
    nm = ["--no-malloc-may-fail"]
    opt = dict(entry="h_match_options", enforce="rtosc_match_options", defines={"DISPATCH_C": raw, "C05_OPT_N": str(n)},
               instr=nm, mode="bounded", replayable=False,
               bound="pattern and message strings of <= %d bytes (incl. NUL), arbitrary content and start offsets" % n,
               timeout=2400)
    sat = ["--sat-solver", "cadical"] if n > 12 else []
    return [
        Obl("C05.rtosc_match_number.contract", "C05", P, entry="h_match_number", enforce="rtosc_match_number",
            replace=["atoi"], loops=True, defines={"DISPATCH_C": inj}, termination=True, functions=["rtosc_match_number"],
            assumed=["atoi"], instr=nm, timeout=600),
        Obl("C05.rtosc_match_number.canary", "C05", P, entry="h_match_number", enforce="rtosc_match_number",
            replace=["atoi"], loops=True, defines={"DISPATCH_C": inj}, instr=nm, timeout=600, canary=True,
            mode="bounded", bound="canary (vacuity guard)", replayable=False),
        # CaDiCaL: 266 s where MiniSat needed 580 s (same machine load); 6.7 GB
        Obl("C05.rtosc_match_path.contract", "C05", P, entry="h_match_path", enforce="rtosc_match_path",
            replace=["rtosc_match_options", "rtosc_match_number"], loops=True, defines={"DISPATCH_C": inj}, termination=True,
            functions=["rtosc_match_path"], instr=nm, timeout=2400, mem_gb=12, cbmc=["--sat-solver", "cadical"],
            note="SAT back end: CaDiCaL (--sat-solver cadical)",
            assumed=["rtosc_match_options beyond %d-byte strings" % n]),
        Obl("C05.rtosc_match_path.canary", "C05", P, entry="h_match_path", enforce="rtosc_match_path", canary=True,
            replace=["rtosc_match_options", "rtosc_match_number"], loops=True, defines={"DISPATCH_C": inj},
            instr=nm, timeout=2400, mem_gb=12, cbmc=["--sat-solver", "cadical"],
            mode="bounded", bound="canary (vacuity guard)", replayable=False),
        # n=12: 10 s (MiniSat); n=24: 316 s with CaDiCaL, 333..1500 s with MiniSat depending on machine load
        Obl("C05.rtosc_match_options.contract", "C05", P, termination=True, functions=["rtosc_match_options"],
            cbmc=["--unwind", str(n + 1), "--unwinding-assertions"] + sat, **opt),
        Obl("C05.rtosc_match_options.canary", "C05", P, canary=True, cbmc=["--unwind", str(n + 1)] + sat, **opt),
    ]


def match_obligations(ctx, normal, kfs):
    H = "harness/C05/match_eq.c"
    almax = 4 if ctx.tier == "quick" else 5
    obls = []
    groups = {}
    for p in normal:
        groups.setdefault(features(p), []).append(p)
    bi = 0
    for feat in sorted(groups):
        pats = groups[feat]
        bsz = BATCH if not (feat[0] or feat[1]) else 3          # {..} and #N patterns are much dearer
        for i in range(0, len(pats), bsz):
            b = pats[i:i + bsz]
            bi += 1
            for al in range(0, almax + 1):
                if al == 0 and feat[2]:
                    continue            # typed patterns need a non-empty address
                d = dict(src_defines(ctx), C05_PATS=",".join(cstr(p) for p in b), C05_NPAT=str(len(b)), C05_AL=str(al))
                obls.append(Obl("C05.match.b%03d.al%d" % (bi, al), "C05", H, entry="h_match_eq", defines=d, mode="bounded",
                                bound="generated patterns (props/C05.py) x every address of %d bytes x every type string of 0..3 tags" % al,
                                cbmc=unwind_flags(b, al), timeout=900, mem_gb=8, case={"patterns": b, "address_length": al}))
    # vacuity guard: a typed batch where 'must match', 'must not match' and 'either' are all reachable
    cb = ["a:i:f", "1/:i", "{a,b}::ii"]
    obls.append(Obl("C05.match.canary", "C05", H, entry="h_match_eq", canary=True, mode="bounded",
                    defines=dict(src_defines(ctx), C05_PATS=",".join(cstr(p) for p in cb), C05_NPAT=str(len(cb)), C05_AL="1"),
                    bound="canary (vacuity guard)", cbmc=unwind_flags(cb, 1), timeout=300))
    # known signatures, each family twice: PART 0 = everything but the signature (must hold), PART 1 = only the signature
    kal = [1, 2, 3] if ctx.tier == "quick" else [1, 2, 3, 4, 5]
    kb = 5 if ctx.tier == "quick" else BATCH
    for i in range(0, len(kfs), kb):
        b = kfs[i:i + kb]
        for al in kal:
            for part in (0, 1):
                if part == 1 and not (i // kb < 3 and al <= 3):
                    continue    # the signature-only obligations FAIL while the finding stands (each costs a trace + a native replay): a few suffice
                d = dict(src_defines(ctx), C05_PATS=",".join(cstr(p) for p in b), C05_NPAT=str(len(b)), C05_AL=str(al),
                         C05_KFGROUP="1", C05_PART=str(part))
                name = ("C05.match.kf%02d.al%d" if part == 0 else "C05.prefix_alt.kf%02d.al%d") % (i // kb + 1, al)
                obls.append(Obl(name, "C05", H, entry="h_match_eq", defines=d, mode="bounded",
                                bound="patterns with a prefix alternative x every address of %d bytes x every type string of 0..3 tags%s"
                                      % (al, "" if part == 0 else "; only the prefix-alternative signature is asserted"),
                                cbmc=unwind_flags(b, al), timeout=900, case={"patterns": b, "address_length": al}))
    ctyped = list(dict.fromkeys([p for p in normal if ":" in p and len(p) <= 8][:BATCH] + ["a:i", "a#2:i:f"]))
    cplain = ["a", "a/", "{a,b}", "#2", "a{a,b}/"]
    for al in ([2, 3, 4] if ctx.tier == "quick" else [1, 2, 3, 4, 5]):
        for nm, colon, parts in (("", ctyped, (0, 1)), (".plain", cplain, (0,))):
            for part in parts:
                d = dict(src_defines(ctx), C05_PATS=",".join(cstr(p) for p in colon), C05_NPAT=str(len(colon)), C05_AL=str(al),
                         C05_COLON="1", C05_PART=str(part))
                name = ("C05.match.colon%s.al%d" if part == 0 else "C05.colon_addr%s.al%d") % (nm, al)
                obls.append(Obl(name, "C05", H, entry="h_match_eq", defines=d, mode="bounded",
                                bound="%s patterns x every address of %d bytes that contains ':' x every type string of 0..3 tags%s"
                                      % ("untyped" if nm else "typed", al,
                                         "" if part == 0 else "; only the colon-in-address signature is asserted"),
                                cbmc=unwind_flags(colon, al, whole=True), timeout=900,
                                case={"patterns": colon, "address_length": al}))
    return obls


def index_obligations(ctx):
    H = "harness/C05/index.c"
    if ctx.tier == "quick":
        ns = ["1", "2", "10", "16", "007", "1000", "999999999", "123456789"]
        shapes = [("x", "", 0), ("x", "/", 2), ("", "y", 1), ("x", ":i", 0)]
    else:
        ns = ["0", "1", "2", "9", "10", "16", "99", "100", "007", "128", "1000", "65536", "1000000", "99999999", "100000000",
              "999999999", "123456789", "000000001"]
        shapes = [("x", "", 0), ("x", "", 1), ("x", "/", 2), ("", "y", 1), ("x", ":i", 0), ("", "/:i:", 2), ("x", "{a,b}", 1)]
    obls = []
    for n in ns:
        mds = sorted(set(m for m in (len(n) - 1, len(n), len(n) + 1, 9) if 1 <= m <= 9)) if ctx.tier == "quick" else range(1, 10)
        for md in mds:
            for pre, psuf, sl in shapes:
                pat = pre + "#" + n + psuf
                al = len(pre) + md + sl
                d = dict(src_defines(ctx), C05_PAT=cstr(pat), C05_PRE_L=str(len(pre)), C05_MD=str(md), C05_SL=str(sl))
                obls.append(Obl("C05.index.%s.m%d+%d" % (key(pat), md, sl), "C05", H, entry="h_index", defines=d, mode="bounded",
                                bound="pattern %s, every index of exactly %d digits, %d more arbitrary address bytes, "
                                      "every type string of 0..2 tags" % (pat, md, sl),
                                cbmc=unwind_flags([pat], al), timeout=900,
                                case={"pattern": pat, "digits_index": md, "address_bytes_after_index": sl}))
    obls.append(Obl("C05.index.canary", "C05", H, entry="h_index", canary=True, mode="bounded", bound="canary (vacuity guard)",
                    defines=dict(src_defines(ctx), C05_PAT=cstr("x#16"), C05_PRE_L="1", C05_MD="2", C05_SL="0"),
                    cbmc=unwind_flags(["x#16"], 3), timeout=300))
    return obls


def args_obligations(ctx):
    H = "harness/C05/args_exact.c"
    # (pattern, address, types, expected to stay inside the message)
    cases = [("a:i:f", "a", "", True), ("a:i:f", "a", "f", True), ("a:iii", "a", "T", True), ("ab/:ii:", "ab/c", "ii", True),
             ("a:iiiiiii", "a", "i", True),
             ("a:iiii", "a", "T", False), ("a:iiii:f", "a", "", False), ("a#2:iiiiiiii", "a1", "i", False)]
    obls = []
    for pat, addr, types, inside in cases:
        d = dict(src_defines(ctx), C05_PAT=cstr(pat), C05_ADDR=cstr(addr), C05_TYPES=cstr(types))
        obls.append(Obl("C05.args_exact.%s.%s" % ("in" if inside else "overread", key(pat) + "." + (types or "none")), "C05", H,
                        entry="h_args_exact", defines=d, mode="bounded",
                        bound="pattern %s on the exact-size message {%s ,%s}" % (pat, addr, types),
                        cbmc=unwind_flags([pat], len(addr)), timeout=300,
                        case={"pattern": pat, "address": addr, "types": types}))
    obls.append(Obl("C05.args_exact.canary", "C05", H, entry="h_args_exact", canary=True, mode="bounded", bound="canary (vacuity guard)",
                    defines=dict(src_defines(ctx), C05_PAT=cstr("a:iiii"), C05_ADDR=cstr("a"), C05_TYPES=cstr("T")),
                    cbmc=unwind_flags(["a:iiii"], 1), timeout=300))
    return obls


def obligations(ctx):
    normal, kfs = generate(ctx)
    ctx.notes.append("C05 generator: %d well-formed patterns without and %d with a prefix alternative (tier %s, seed %d)"
                     % (len(normal), len(kfs), ctx.tier, ctx.seed))
    return proof_obligations(ctx) + match_obligations(ctx, normal, kfs) + index_obligations(ctx) + args_obligations(ctx)


if __name__ == "__main__":
    c = vlib.Ctx("C05", sys.argv[1] if len(sys.argv) > 1 else "quick", 0)
    try:
        n, k = generate(c)
        print("\n".join(n)); print("--- prefix alternatives"); print("\n".join(k))
        print("%d + %d patterns" % (len(n), len(k)))
    finally:
        c.cleanup()
