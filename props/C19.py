"""C19 - Automation output in range; MIDI-learn served in order (partial: learn queue + linear mapping)."""
import os, re
import vlib, extract
from vlib import Obl
from extract import ExtractError
from inject_loops import blank_noncode

LEVEL = "proof"
CLASS = "AutomationMgr"
# methods of AutomationMgr cut out of src/cpp/automations.cpp (C-style bodies, no STL, no metadata)
METHODS = ["updateMapping", "setSlot", "setSlotSub", "clearSlot", "clearSlotSub", "setSlotSubGain",
           "setSlotSubOffset", "handleMidi", "getnrpn", "setparameternumber"]
FUNCTIONS = ["AutomationMgr::" + m for m in METHODS] + ["AutomationMgr::createBinding (learn-queue tail only)"]
# data members that the extracted bodies may name (reached through `#define m (self->m)`)
MEMBERS = ["slots", "nslots", "per_slot", "active_slot", "learn_queue_len", "impl", "p", "instance", "backend",
           "damaged", "NRPN"]
TRUSTED = []
ASSUMPTIONS = []
RULE = ""
EXPLANATION = ""
QUEUE_TOKENS = r"\b(learning|learn_queue_len|midi_cc|midi_nrpn|NRPN)\b"


# ------------------------------------------------------------------------------------------ extraction (DESIGN 4, R2)

def _auto_ref(text, log, where, expect_decls):
    """rule auto-ref: `auto &x = e;` -> `__typeof__(e) *x__p = &(e);` and every later `x` -> `(*x__p)`.
    Applied to code only (comments/strings masked). expect_decls is the must-fire count of declarations."""
    names = re.findall(r"\bauto\s*&\s*(\w+)\s*=", blank_noncode(text))
    if len(names) != expect_decls or len(set(names)) != len(names):
        raise ExtractError("rule auto-ref in %s: %d declarations %r, expected %d" % (where, len(names), names, expect_decls))
    for x in names:
        text = extract.apply_rules(text, [
            ("auto-ref-decl", r"\bauto\s*&\s*%s\s*=\s*([^;{}]+?)\s*;" % x, r"__typeof__(\1) *%s__p = &(\1);" % x, 1),
        ], log, where)
        # uses: whole-word x that is not a member access (.x / ->x); in code positions only
        code = blank_noncode(text)
        out, last, n = [], 0, 0
        for m in re.finditer(r"(?<![\w.>])%s\b" % x, code):
            out.append(text[last:m.start()]); out.append("(*%s__p)" % x); last = m.end(); n += 1
        out.append(text[last:])
        text = "".join(out)
        log.append("extract rule %-12s in %-28s fired %d (expected ≥1) [%s -> (*%s__p)]" % ("auto-ref-use", where, n, x, x))
        if n < 1:
            raise ExtractError("rule auto-ref-use in %s: reference %s is never used" % (where, x))
    return text


def _method(text, log, where):
    """rule method: `R AutomationMgr::m(args)` -> `R AutomationMgr_m(struct AutomationMgr *self, args)`."""
    return extract.apply_rules(text, [
        ("method", r"\A(\s*[\w][\w\s\*]*?)\b%s\s*::\s*(\w+)\s*\(\s*(?=[^)\s])" % CLASS,
         r"\1%s_\2(struct %s *self, " % (CLASS, CLASS), 1),
    ], log, where)


def _line_of(src, needle_pos):
    return src.count("\n", 0, needle_pos) + 1


def extract_automations(ctx):
    log = ctx.notes
    hdr = extract.read(ctx.repo, "include/rtosc/automations.h")
    cpp = extract.read(ctx.repo, "src/cpp/automations.cpp")
    out = ["/* GENERATED on every run by props/C19.py from include/rtosc/automations.h and src/cpp/automations.cpp",
           " * (DESIGN section 4, route R2). Do not edit. */",
           "#ifndef C19_AUTOMATIONS_EXT_H", "#define C19_AUTOMATIONS_EXT_H",
           "#include <stdbool.h>", "#include <string.h>", "#include <stdio.h>", "#include <math.h>",
           "#include <rtosc/rtosc.h>", ""]

    # --- rule defines: the four MIDI controller numbers used by handleMidi/setparameternumber
    defs = re.findall(r"^[ \t]*#define[ \t]+C_(?:dataentryhi|dataentrylo|nrpnhi|nrpnlo)[ \t]+\S+[ \t]*$", hdr, re.M)
    log.append("extract rule %-12s in %-28s fired %d (expected 4)" % ("defines", "automations.h", len(defs)))
    if len(defs) != 4:
        raise ExtractError("rule defines: %d controller-number macros found in automations.h, expected 4" % len(defs))
    out += [d.strip() for d in defs] + [""]

    # --- rule struct-lift: the three plain-data structs, copied verbatim (C needs the typedef names)
    for s in ("AutomationMapping", "Automation", "AutomationSlot"):
        out.append("typedef struct %s %s;" % (s, s))
    for s in ("AutomationMapping", "Automation", "AutomationSlot"):
        body = extract.cut_struct(hdr, s, keyword="struct")
        if re.search(r"\b(std|rtosc)\s*::|\bclass\b|\bvirtual\b|\(", blank_noncode(body)):
            raise ExtractError("struct %s is no longer plain data" % s)
        log.append("extract rule %-12s in %-28s fired 1 (expected 1) [verbatim]" % ("struct-lift", "struct " + s))
        out += [body, ""]

    # --- rule struct-lift on class AutomationMgr: data-member lines only
    cls = extract.cut_struct(hdr, CLASS, keyword="class")
    m1 = re.search(r"^[ \t]*AutomationSlot \*slots;.*?^[ \t]*int damaged;[ \t]*$", cls, re.S | re.M)
    m2 = re.search(r"^[ \t]*struct \{[^{}]*\} NRPN;[ \t]*$", cls, re.S | re.M)
    log.append("extract rule %-12s in %-28s fired %d (expected 2) [slots..damaged, NRPN]" % (
        "struct-lift", "class AutomationMgr", (m1 is not None) + (m2 is not None)))
    if not m1 or not m2:
        raise ExtractError("data members of class AutomationMgr not found in the expected shape")
    members = m1.group(0) + "\n" + m2.group(0) + "\n"
    members = extract.apply_rules(members, [
        ("std-function", r"std::function<void\(const char \*\)>\s*backend;", "void (*backend)(const char *);", 1),
        ("foreign-ptr", r"const rtosc::Ports \*p;", "const void *p;", 1),
        ("foreign-ptr", r"struct AutomationMgrImpl \*impl;", "const void *impl;", 1),
    ], log, "class AutomationMgr")
    code = blank_noncode(members)
    if re.search(r"\b(std|rtosc)\s*::|\(\s*\)|\bvirtual\b", code.replace("(*backend)(const char *)", "")):
        raise ExtractError("class AutomationMgr data members contain something that is not plain data")
    declared = set(re.findall(r"(\w+)\s*(?:\)\s*\([^)]*\))?\s*;", code)) | {"parhi", "parlo", "valhi", "vallo"}
    for mname in MEMBERS:
        if mname not in declared:
            raise ExtractError("data member %s of AutomationMgr not found" % mname)
    out += ["struct %s {" % CLASS, members.rstrip("\n"), "};", ""]

    # --- methods
    bodies = []
    for mth in METHODS:
        where = "%s::%s" % (CLASS, mth)
        t = extract.cut_function(cpp, mth, qualifier=CLASS)
        t = _method(t, log, where)
        ndecl = len(re.findall(r"\bauto\s*&", blank_noncode(t)))
        expect = {"updateMapping": 1, "setSlotSub": 1, "clearSlot": 1, "clearSlotSub": 1, "setSlotSubGain": 1,
                  "setSlotSubOffset": 1}.get(mth, 0)
        if ndecl != expect:
            raise ExtractError("rule auto-ref in %s: %d declarations, expected %d" % (where, ndecl, expect))
        if expect:
            t = _auto_ref(t, log, where, expect)
        else:
            log.append("extract rule %-12s in %-28s fired 0 (expected 0)" % ("auto-ref-decl", where))
        bodies.append((mth, t))

    # --- createBinding: only its learn-queue tail (class D otherwise: Ports::apropos, metadata, atof, logf)
    cb = extract.cut_function(cpp, "createBinding", qualifier=CLASS)
    cb_start = cpp.index(cb)
    tail = re.search(r"(if\s*\(\s*start_midi_learn\b[^;{}]*;)(\s*damaged\s*=\s*true\s*;\s*\})\s*\Z", cb)
    log.append("extract rule %-12s in %-28s fired %d (expected 1)" % ("tail-cut", CLASS + "::createBinding", 1 if tail else 0))
    if not tail:
        raise ExtractError("createBinding does not end in `if(start_midi_learn ...) ...; damaged = true; }`")
    l0, l1 = _line_of(cpp, cb_start + tail.start(1)), _line_of(cpp, cb_start + tail.end(1) - 1)
    log.append("extract: createBinding learn-queue tail = src/cpp/automations.cpp lines %d-%d: %s" % (
        l0, l1, " ".join(tail.group(1).split())))
    head_part = blank_noncode(cb[:tail.start(1)])
    nq = len(re.findall(QUEUE_TOKENS, head_part))
    log.append("extract rule %-12s in %-28s fired %d (expected 0) [no queue field named before the tail]" % (
        "absent", CLASS + "::createBinding", nq))
    if nq != 0:
        raise ExtractError("createBinding touches learn-queue fields before its tail (%d tokens): out of reach" % nq)
    hd = re.match(r"\s*[\w\s\*]*?\b%s\s*::\s*createBinding\s*\([^)]*\)" % CLASS, cb)
    if not hd:
        raise ExtractError("createBinding header not found")
    hd_c = _method(hd.group(0), log, CLASS + "::createBinding").replace("AutomationMgr_createBinding", "AutomationMgr_createBinding_tail")
    bodies.append(("createBinding_tail", hd_c + "\n{\n    " + tail.group(1) + "\n}"))

    # --- no parameter or local may shadow a member macro
    for mth, t in bodies:
        code = blank_noncode(t)
        params = code[code.index("("):code.index("{")]
        for mname in MEMBERS:
            if re.search(r"[\w\*]\s+\*?%s\s*[,)=;]" % mname, params) or re.search(r"\b(?:int|float|bool|char|auto)\s+\*?%s\b" % mname, code):
                raise ExtractError("%s declares a name that shadows data member %s" % (mth, mname))
        if re.search(r"\bthis\b|\bstd\s*::|\brtosc\s*::|\bnew\b|\bdelete\b|\[\s*\]\s*\(|\bfor\s*\([^;)]*:", code):
            raise ExtractError("%s contains C++ that the rule table does not cover" % mth)

    # prototypes
    for mth, t in bodies:
        out.append(t[:t.index("{")].strip() + ";")
    out.append("")
    # member and sibling macros
    used_members = [m for m in MEMBERS if any(re.search(r"(?<![\w.>])%s\b" % m, blank_noncode(t)) for _, t in bodies)]
    for mname in used_members:
        out.append("#define %s (self->%s)" % (mname, mname))
    for mth in METHODS:
        out.append("#define %s(...) %s_%s(self, __VA_ARGS__)" % (mth, CLASS, mth))
    log.append("extract rule %-12s members via self: %s; sibling calls: %s" % ("method", ",".join(used_members), ",".join(METHODS)))
    out.append("")
    for mth, t in bodies:
        # a harness may compile with -DC19_REPLACE_<method>: the body is then left out and the harness supplies the
        # method's CONTRACT (contracts/automations.h) under the same name - "callee replaced by its contract"
        out += ["#ifndef C19_REPLACE_%s" % mth, t, "#endif", ""]
    for mname in used_members:
        out.append("#undef %s" % mname)
    for mth in METHODS:
        out.append("#undef %s" % mth)
    out += ["#endif", ""]
    return extract.write(ctx, "automations_ext.h", "\n".join(out))


def prepare(ctx):
    extract_automations(ctx)


OPS = "harness/C19/ops.c"
# every loop of code, spec and harness is bounded by nslots <= 6, per_slot <= 3, 4 control points, 4 NRPN registers:
# --unwind 8 unwinds all of them completely; the unwinding assertions prove that (a failure would be exit 2)
UNWIND = ["--object-bits", "12", "--unwind", "8", "--unwinding-assertions"]


def configs(tier):
    return [(ns, ps) for ns in range(1, 7) for ps in range(1, 4)]


def op_obligations(ctx):
    obls = []
    table = [  # (name, entry, extra defines)
        ("clearSlot.waiting", "h_clearSlot", {"CASE_WAITING": None}),
        ("clearSlot.not_waiting", "h_clearSlot", {"CASE_NOT_WAITING": None}),
        ("handleMidi.cc_bound", "h_handleMidi", {"CASE_CC_BOUND": None, "C19_REPLACE_setSlot": None}),
        ("handleMidi.cc_unbound", "h_handleMidi", {"CASE_CC_UNBOUND": None, "C19_REPLACE_setSlot": None}),
        ("handleMidi.nrpn_bound", "h_handleMidi", {"CASE_NRPN_BOUND": None, "C19_REPLACE_setSlot": None}),
        ("handleMidi.nrpn_unbound", "h_handleMidi", {"CASE_NRPN_UNBOUND": None, "C19_REPLACE_setSlot": None}),
        ("handleMidi.nrpn_incomplete", "h_handleMidi", {"CASE_NRPN_INCOMPLETE": None, "C19_REPLACE_setSlot": None}),
        ("enqueue", "h_enqueue", {"NOSPLIT": None}),
        ("setSlotSub.frame", "h_setSlotSub", {"NOSPLIT": None}),
        ("updateMapping.frame", "h_updateMapping", {"NOSPLIT": None}),
        ("clearSlotSub.frame", "h_clearSlotSub", {}),
        ("setSlotSubGain.frame", "h_setSlotSubGain", {"NOSPLIT": None}),
        ("setSlotSubOffset.frame", "h_setSlotSubOffset", {"NOSPLIT": None}),
    ]
    for ns, ps in configs(ctx.tier):
        rows = list(table)
        # setSlot against its contract: one obligation per in-range slot index, one for the out-of-range representatives
        rows += [("setSlot.contract_s%d" % i, "h_setSlot", {"FIXED_SLOT": str(i)}) for i in range(ns)]
        rows += [("setSlot.contract_oor", "h_setSlot", {})]
        for name, entry, defs in rows:
            d = dict(defs, NS=str(ns), PS=str(ps))
            obls.append(Obl("C19.%s.n%dx%d" % (name, ns, ps), "C19", OPS, entry=entry, defines=d, mode="proof",
                            replayable=True, cbmc=UNWIND, timeout=600, case={"nslots": ns, "per_slot": ps}))
    return obls


def obligations(ctx):
    return op_obligations(ctx)
