"""C19 - Automation output in range; MIDI-learn served in order (partial: learn queue + linear mapping)."""
import os, re
import vlib, extract
from vlib import Obl
from extract import ExtractError
from inject_loops import blank_noncode

LEVEL = "proof"
CLASS = "AutomationMgr"
# methods of AutomationMgr cut out of src/cpp/automations.cpp (C-style bodies, no STL, no metadata)
METHODS = ["updateMapping", "setSlot", "setSlotSub", "clearSlot", "clearSlotSub", "setSlotSubGain",
           "setSlotSubOffset", "handleMidi", "getnrpn", "setparameternumber"]
FUNCTIONS = ["AutomationMgr::" + m for m in METHODS] + ["AutomationMgr::createBinding (learn-queue tail only)"]
# data members that the extracted bodies may name (reached through `#define m (self->m)`)
MEMBERS = ["slots", "nslots", "per_slot", "active_slot", "learn_queue_len", "impl", "p", "instance", "backend",
           "damaged", "NRPN"]
TRUSTED = [
    "CBMC 6.11.0 (goto-cc, cbmc) with kissat as SAT back end (--external-sat-solver; cbmc's built-in solver if kissat is absent), "
    "its IEEE-754 float model (round to nearest), va_list and memset models",
    "x86-64 LP64 bit-vector semantics, FLT_EVAL_METHOD 0; shipped flags -DNDEBUG",
    "extraction rules of DESIGN section 4 (R2) are meaning-preserving: method (implicit this -> self, members through "
    "#define m (self->m), sibling calls through #define m(...) AutomationMgr_m(self, ...)), auto-ref, struct-lift "
    "(std::function<void(const char*)> -> function pointer, foreign pointers -> const void*), defines, tail-cut; the rule "
    "log with fire counts is in infrastructure_notes; the extracted C text compiled as C means what the C++ text means",
    "g++ for the native base-case run (harness/C19/base_case.cpp) and the counterexample replays",
]
ASSUMPTIONS = [
    "PARTIAL CLAIM: learn queue + bindings (all operations) and the linear mapping. Not covered: log scale (expf/logf), the "
    "metadata part of createBinding/setSlotSubPath (Ports::apropos, atof), roundf for non-integral integer bounds, "
    "MONOTONICITY in the slot value (undecided: not finished by CBMC/kissat in 60 min - two coupled 24x24 bit multipliers; "
    "NOT claimed; C19_FP_HARD=1 attempts it in the thorough tier), linearity between the end points for float parameters "
    "(same), end points for arbitrary float bounds (they are met only up to rounding: findings/c19_endpoint_rounding.c)",
    "induction hypothesis of every operation obligation: INV = LQ && UNIQ(midi_cc) && UNIQ(midi_nrpn) && NRPN_RANGE "
    "(spec/lq_spec.h); every other field of the manager is unconstrained (symbolic)",
    "base case (constructor establishes INV) is decided by exhaustive native execution of the real constructor over the "
    "configuration space 1..6 x 1..3 (static fact C19.base_case.constructor), not by CBMC",
    "createBinding is modelled by its learn-queue tail (the `if(start_midi_learn ...) ...;` statement cut out with a "
    "must-fire rule, lines logged); a textual must-not-fire rule shows the rest of createBinding names no queue field; "
    "its callee updateMapping is covered by its own frame obligation; precondition 0 <= slot < nslots (createBinding "
    "indexes slots[slot] unchecked)",
    "MIDI input domain of handleMidi: channel 0..15, controller 0..127, value 0..127",
    "rtosc_message (called by setSlotSub) is replaced by a harness-side recorder that records address pointer, type tag and "
    "value: ASSUMES the contract of rtosc_message decided under C01 (the message <address, tag, value> is written into "
    "the buffer); snprintf (slot name in clearSlot) is replaced by a stub that checks the destination holds n bytes",
    "setSlot is replaced by its contract (contracts/automations.h) in the handleMidi obligations; the contract is proved "
    "against the real setSlot+setSlotSub bodies by the obligations C19.setSlot.contract_* (every in-range slot index; "
    "the call sites are shown to pass in-range indices); thorough tier also runs handleMidi end to end without it",
    "index arguments: every in-range value and the out-of-range values -1, 6 (slot) / 3 (sub), INT_MIN, INT_MAX; "
    "setSlotSub/updateMapping/setSlotSubGain/setSlotSubOffset additionally for EVERY int (symbolic index); clearSlot and "
    "clearSlotSub (which memset) only for the listed out-of-range values",
    "quick tier: nslots in 1..6 and per_slot in 1..3 are symbolic inputs over maximal-size heap objects (writes beyond "
    "nslots/per_slot are excluded by an assertion, reads beyond them would go unnoticed); thorough tier adds every one of "
    "the 18 configurations with exact-size heap objects",
    "numeric obligations (linear scale, control_scale != 1): param_min <= param_max finite with |.| <= 2^100, control "
    "points finite with |.| <= 2^100 (updateMapping yields that for |gain|,|offset| <= 2^20: obligation "
    "updateMapping.points), slot value finite; integer parameters: integral bounds with |.| <= 2^30; exact end points "
    "(thorough tier): min=km/256, max=kx/256 with integers |km|,|kx| <= 2^16 (integer parameters: multiples of 256; "
    "toggles: [0,1])",
    "control point arrays have >= 4 elements (updateMapping writes [0..3] whatever npoints is)",
    "CBMC 6.11 does not apply the float->double default promotion to variadic arguments; the recorder reads an 'f' value "
    "in the width CBMC passes it (natively: double)",
]
RULE = ("one obligation per operation and case of its abstract transition (clearSlot: waiting / not waiting; handleMidi: CC "
        "bound / CC unbound / NRPN bound / NRPN unbound / NRPN sequence incomplete; enqueue; frame of setSlotSub, "
        "updateMapping, clearSlotSub, setSlotSubGain, setSlotSubOffset; setSlot against its contract per slot index) plus "
        "one per clause of the emitted-message sentence; non-trivial = >0 cbmc properties; distinct by name")
EXPLANATION = ("History claim by induction over operations: INV (learn_queue_len = k >= 0, waiting slots hold ranks 1..k "
               "once each, others -1, controllers bound at most once, NRPN registers in range) is assumed before and "
               "proved after every operation, for every state and argument, together with the abstract queue transition "
               "the statement demands (remove / pop head and bind it to exactly the controller moved / append / unchanged). "
               "All loops are bounded by nslots <= 6, per_slot <= 3: the unwinding is complete (unwinding assertions). "
               "Emitted message: address/type/exactly-once for every index; value in [min,max] for float and integer "
               "parameters; control points finite and ordered for non-negative gain; thorough tier: exact end points at "
               "default gain/offset (float, integer, toggle parameters with bounds k/256) and linearity in between for "
               "integer parameters. Monotonicity in the slot value is NOT decided and not claimed.")
QUEUE_TOKENS = r"\b(learning|learn_queue_len|midi_cc|midi_nrpn|NRPN)\b"


# ------------------------------------------------------------------------------------------ extraction (DESIGN 4, R2)

def _auto_ref(text, log, where, expect_decls):
    """rule auto-ref: `auto &x = e;` -> `__typeof__(e) *x__p = &(e);` and every later `x` -> `(*x__p)`.
    Applied to code only (comments/strings masked). expect_decls is the must-fire count of declarations."""
    names = re.findall(r"\bauto\s*&\s*(\w+)\s*=", blank_noncode(text))
    if len(names) != expect_decls or len(set(names)) != len(names):
        raise ExtractError("rule auto-ref in %s: %d declarations %r, expected %d" % (where, len(names), names, expect_decls))
    for x in names:
        text = extract.apply_rules(text, [
            ("auto-ref-decl", r"\bauto\s*&\s*%s\s*=\s*([^;{}]+?)\s*;" % x, r"__typeof__(\1) *%s__p = &(\1);" % x, 1),
        ], log, where)
        # uses: whole-word x that is not a member access (.x / ->x); in code positions only
        code = blank_noncode(text)
        out, last, n = [], 0, 0
        for m in re.finditer(r"(?<![\w.>])%s\b" % x, code):
            out.append(text[last:m.start()]); out.append("(*%s__p)" % x); last = m.end(); n += 1
        out.append(text[last:])
        text = "".join(out)
        log.append("extract rule %-12s in %-28s fired %d (expected ≥1) [%s -> (*%s__p)]" % ("auto-ref-use", where, n, x, x))
        if n < 1:
            raise ExtractError("rule auto-ref-use in %s: reference %s is never used" % (where, x))
    return text


def _method(text, log, where):
    """rule method: `R AutomationMgr::m(args)` -> `R AutomationMgr_m(struct AutomationMgr *self, args)`."""
    return extract.apply_rules(text, [
        ("method", r"\A(\s*[\w][\w\s\*]*?)\b%s\s*::\s*(\w+)\s*\(\s*(?=[^)\s])" % CLASS,
         r"\1%s_\2(struct %s *self, " % (CLASS, CLASS), 1),
    ], log, where)


def _line_of(src, needle_pos):
    return src.count("\n", 0, needle_pos) + 1


def extract_automations(ctx):
    log = ctx.notes
    hdr = extract.read(ctx.repo, "include/rtosc/automations.h")
    cpp = extract.read(ctx.repo, "src/cpp/automations.cpp")
    out = ["/* GENERATED on every run by props/C19.py from include/rtosc/automations.h and src/cpp/automations.cpp",
           " * (DESIGN section 4, route R2). Do not edit. */",
           "#ifndef C19_AUTOMATIONS_EXT_H", "#define C19_AUTOMATIONS_EXT_H",
           "#include <stdbool.h>", "#include <string.h>", "#include <stdio.h>", "#include <math.h>",
           "#include <rtosc/rtosc.h>", ""]

    # --- rule defines: the four MIDI controller numbers used by handleMidi/setparameternumber
    defs = re.findall(r"^[ \t]*#define[ \t]+C_(?:dataentryhi|dataentrylo|nrpnhi|nrpnlo)[ \t]+\S+[ \t]*$", hdr, re.M)
    log.append("extract rule %-12s in %-28s fired %d (expected 4)" % ("defines", "automations.h", len(defs)))
    if len(defs) != 4:
        raise ExtractError("rule defines: %d controller-number macros found in automations.h, expected 4" % len(defs))
    out += [d.strip() for d in defs] + [""]

    # --- rule struct-lift: the three plain-data structs, copied verbatim (C needs the typedef names)
    for s in ("AutomationMapping", "Automation", "AutomationSlot"):
        out.append("typedef struct %s %s;" % (s, s))
    for s in ("AutomationMapping", "Automation", "AutomationSlot"):
        body = extract.cut_struct(hdr, s, keyword="struct")
        if re.search(r"\b(std|rtosc)\s*::|\bclass\b|\bvirtual\b|\(", blank_noncode(body)):
            raise ExtractError("struct %s is no longer plain data" % s)
        log.append("extract rule %-12s in %-28s fired 1 (expected 1) [verbatim]" % ("struct-lift", "struct " + s))
        out += [body, ""]

    # --- rule struct-lift on class AutomationMgr: data-member lines only
    cls = extract.cut_struct(hdr, CLASS, keyword="class")
    m1 = re.search(r"^[ \t]*AutomationSlot \*slots;.*?^[ \t]*int damaged;[ \t]*$", cls, re.S | re.M)
    m2 = re.search(r"^[ \t]*struct \{[^{}]*\} NRPN;[ \t]*$", cls, re.S | re.M)
    log.append("extract rule %-12s in %-28s fired %d (expected 2) [slots..damaged, NRPN]" % (
        "struct-lift", "class AutomationMgr", (m1 is not None) + (m2 is not None)))
    if not m1 or not m2:
        raise ExtractError("data members of class AutomationMgr not found in the expected shape")
    members = m1.group(0) + "\n" + m2.group(0) + "\n"
    members = extract.apply_rules(members, [
        ("std-function", r"std::function<void\(const char \*\)>\s*backend;", "void (*backend)(const char *);", 1),
        ("foreign-ptr", r"const rtosc::Ports \*p;", "const void *p;", 1),
        ("foreign-ptr", r"struct AutomationMgrImpl \*impl;", "const void *impl;", 1),
    ], log, "class AutomationMgr")
    code = blank_noncode(members)
    if re.search(r"\b(std|rtosc)\s*::|\(\s*\)|\bvirtual\b", code.replace("(*backend)(const char *)", "")):
        raise ExtractError("class AutomationMgr data members contain something that is not plain data")
    declared = set(re.findall(r"(\w+)\s*(?:\)\s*\([^)]*\))?\s*;", code)) | {"parhi", "parlo", "valhi", "vallo"}
    for mname in MEMBERS:
        if mname not in declared:
            raise ExtractError("data member %s of AutomationMgr not found" % mname)
    out += ["struct %s {" % CLASS, members.rstrip("\n"), "};", ""]

    # --- methods
    bodies = []
    for mth in METHODS:
        where = "%s::%s" % (CLASS, mth)
        t = extract.cut_function(cpp, mth, qualifier=CLASS)
        t = _method(t, log, where)
        ndecl = len(re.findall(r"\bauto\s*&", blank_noncode(t)))
        expect = {"updateMapping": 1, "setSlotSub": 1, "clearSlot": 1, "clearSlotSub": 1, "setSlotSubGain": 1,
                  "setSlotSubOffset": 1}.get(mth, 0)
        if ndecl != expect:
            raise ExtractError("rule auto-ref in %s: %d declarations, expected %d" % (where, ndecl, expect))
        if expect:
            t = _auto_ref(t, log, where, expect)
        else:
            log.append("extract rule %-12s in %-28s fired 0 (expected 0)" % ("auto-ref-decl", where))
        bodies.append((mth, t))

    # --- createBinding: only its learn-queue tail (class D otherwise: Ports::apropos, metadata, atof, logf)
    cb = extract.cut_function(cpp, "createBinding", qualifier=CLASS)
    cb_start = cpp.index(cb)
    tail = re.search(r"(if\s*\(\s*start_midi_learn\b[^;{}]*;)(\s*damaged\s*=\s*true\s*;\s*\})\s*\Z", cb)
    log.append("extract rule %-12s in %-28s fired %d (expected 1)" % ("tail-cut", CLASS + "::createBinding", 1 if tail else 0))
    if not tail:
        raise ExtractError("createBinding does not end in `if(start_midi_learn ...) ...; damaged = true; }`")
    l0, l1 = _line_of(cpp, cb_start + tail.start(1)), _line_of(cpp, cb_start + tail.end(1) - 1)
    log.append("extract: createBinding learn-queue tail = src/cpp/automations.cpp lines %d-%d: %s" % (
        l0, l1, " ".join(tail.group(1).split())))
    head_part = blank_noncode(cb[:tail.start(1)])
    nq = len(re.findall(QUEUE_TOKENS, head_part))
    log.append("extract rule %-12s in %-28s fired %d (expected 0) [no queue field named before the tail]" % (
        "absent", CLASS + "::createBinding", nq))
    if nq != 0:
        raise ExtractError("createBinding touches learn-queue fields before its tail (%d tokens): out of reach" % nq)
    hd = re.match(r"\s*[\w\s\*]*?\b%s\s*::\s*createBinding\s*\([^)]*\)" % CLASS, cb)
    if not hd:
        raise ExtractError("createBinding header not found")
    hd_c = _method(hd.group(0), log, CLASS + "::createBinding").replace("AutomationMgr_createBinding", "AutomationMgr_createBinding_tail")
    bodies.append(("createBinding_tail", hd_c + "\n{\n    " + tail.group(1) + "\n}"))

    # --- no parameter or local may shadow a member macro
    for mth, t in bodies:
        code = blank_noncode(t)
        params = code[code.index("("):code.index("{")]
        for mname in MEMBERS:
            if re.search(r"[\w\*]\s+\*?%s\s*[,)=;]" % mname, params) or re.search(r"\b(?:int|float|bool|char|auto)\s+\*?%s\b" % mname, code):
                raise ExtractError("%s declares a name that shadows data member %s" % (mth, mname))
        if re.search(r"\bthis\b|\bstd\s*::|\brtosc\s*::|\bnew\b|\bdelete\b|\[\s*\]\s*\(|\bfor\s*\([^;)]*:", code):
            raise ExtractError("%s contains C++ that the rule table does not cover" % mth)

    # prototypes
    for mth, t in bodies:
        out.append(t[:t.index("{")].strip() + ";")
    out.append("")
    # member and sibling macros
    used_members = [m for m in MEMBERS if any(re.search(r"(?<![\w.>])%s\b" % m, blank_noncode(t)) for _, t in bodies)]
    for mname in used_members:
        out.append("#define %s (self->%s)" % (mname, mname))
    for mth in METHODS:
        out.append("#define %s(...) %s_%s(self, __VA_ARGS__)" % (mth, CLASS, mth))
    log.append("extract rule %-12s members via self: %s; sibling calls: %s" % ("method", ",".join(used_members), ",".join(METHODS)))
    out.append("")
    for mth, t in bodies:
        # a harness may compile with -DC19_REPLACE_<method>: the body is then left out and the harness supplies the
        # method's CONTRACT (contracts/automations.h) under the same name - "callee replaced by its contract"
        out += ["#ifndef C19_REPLACE_%s" % mth, t, "#endif", ""]
    for mname in used_members:
        out.append("#undef %s" % mname)
    for mth in METHODS:
        out.append("#undef %s" % mth)
    out += ["#endif", ""]
    return extract.write(ctx, "automations_ext.h", "\n".join(out))


def prepare(ctx):
    ctx.notes.append("SAT back end: %s" % ("kissat (external)" if SOLVER else "cbmc built-in (kissat not found)"))
    extract_automations(ctx)


OPS = "harness/C19/ops.c"
EMIT = "harness/C19/emit.c"
# every loop of code, spec and harness is bounded by nslots <= 6, per_slot <= 3, 4 control points, 4 NRPN registers:
# --unwind 8 unwinds all of them completely; the unwinding assertions prove that (a failure would be exit 2)
UNWIND = ["--object-bits", "12", "--unwind", "8", "--unwinding-assertions"]
# SAT back end: kissat through cbmc's --external-sat-solver. cbmc's built-in minisat gets stuck (> 15 min) on about 1 % of
# these instances (e.g. setSlot.contract_s0.n3x2, 122k variables) that kissat decides in seconds, and does not finish the
# floating-point end-point obligations at all. Without kissat on the PATH the built-in solver is used (noted in evidence).
import shutil
SOLVER = "kissat" if shutil.which("kissat") else None
REPL = {"C19_REPLACE_setSlot": None}
SPACE = "nslots 1..6 x per_slot 1..3 (symbolic), all field values symbolic under INV"

# (name, entry, defines): the induction step, one row per operation and case
OP_TABLE = [
    ("clearSlot.waiting", "h_clearSlot", {"CASE_WAITING": None}),
    ("clearSlot.not_waiting", "h_clearSlot", {"CASE_NOT_WAITING": None}),
    ("handleMidi.cc_bound", "h_handleMidi", dict(REPL, CASE_CC_BOUND=None)),
    ("handleMidi.cc_unbound", "h_handleMidi", dict(REPL, CASE_CC_UNBOUND=None)),
    ("handleMidi.nrpn_bound", "h_handleMidi", dict(REPL, CASE_NRPN_BOUND=None)),
    ("handleMidi.nrpn_unbound", "h_handleMidi", dict(REPL, CASE_NRPN_UNBOUND=None)),
    ("handleMidi.nrpn_incomplete", "h_handleMidi", dict(REPL, CASE_NRPN_INCOMPLETE=None)),
    ("enqueue", "h_enqueue", {}),
    ("setSlotSub.frame", "h_setSlotSub", {"ANY_INDEX": None}),
    ("updateMapping.frame", "h_updateMapping", {"ANY_INDEX": None}),
    ("clearSlotSub.frame", "h_clearSlotSub", {}),
    ("setSlotSubGain.frame", "h_setSlotSubGain", {"ANY_INDEX": None}),
    ("setSlotSubOffset.frame", "h_setSlotSubOffset", {"ANY_INDEX": None}),
]


def _op_rows(ns):
    rows = list(OP_TABLE)
    # setSlot against its contract: one obligation per slot index (constant), one for the out-of-range representatives
    rows += [("setSlot.contract_s%d" % i, "h_setSlot", {"FIXED_SLOT": str(i)}) for i in range(ns)]
    rows += [("setSlot.contract_oor", "h_setSlot", {})]
    return rows


def op_obligations(ctx):
    obls = []
    # (1) the whole configuration space in one obligation per operation: nslots, per_slot symbolic
    for name, entry, defs in _op_rows(6):
        d = dict(defs, NS="6", PS="3", SYMCFG=None)
        obls.append(Obl("C19.%s" % name, "C19", OPS, entry=entry, defines=d, mode="proof", replayable=True, cbmc=UNWIND,
                        timeout=900, bound=SPACE, functions=[entry[2:]], case={"nslots": "1..6", "per_slot": "1..3"}, solver=SOLVER))
    if ctx.tier != "quick":
        # (2) every configuration on its own, exact-size heap objects (an access beyond nslots/per_slot traps)
        for ns in range(1, 7):
            for ps in range(1, 4):
                for name, entry, defs in _op_rows(ns):
                    d = dict(defs, NS=str(ns), PS=str(ps))
                    obls.append(Obl("C19.%s.n%dx%d" % (name, ns, ps), "C19", OPS, entry=entry, defines=d, mode="proof",
                                    replayable=True, cbmc=UNWIND, timeout=900, solver=SOLVER,
                                    bound="nslots=%d, per_slot=%d exactly (exact-size objects)" % (ns, ps),
                                    case={"nslots": ns, "per_slot": ps}))
        # (3) handleMidi end to end (real setSlot/setSlotSub instead of the setSlot contract), small configuration
        for name, entry, defs in OP_TABLE:
            if entry == "h_handleMidi":
                d = {k: v for k, v in defs.items() if k != "C19_REPLACE_setSlot"}
                d.update(NS="2", PS="2")
                obls.append(Obl("C19.%s.end_to_end.n2x2" % name, "C19", OPS, entry=entry, defines=d, mode="proof",
                                replayable=True, cbmc=UNWIND, timeout=900, solver=SOLVER, bound="nslots=2, per_slot=2, no callee replaced",
                                case={"nslots": 2, "per_slot": 2}))
    return obls


def emit_obligations(ctx):
    obls = []
    def fp(name, entry, defs, timeout=280, **kw):
        d = dict(defs, NS="2", PS="2")
        obls.append(Obl("C19.%s" % name, "C19", EMIT, entry=entry, defines=d, mode="proof", replayable=True, cbmc=UNWIND,
                        timeout=timeout, bound="one automation (constant indices), numeric domain D_* of harness/C19/emit.c",
                        **dict(dict(solver=SOLVER), **kw)))
    # address / type / exactly one message: every index (symbolic), whole configuration space, no floating point
    obls.append(Obl("C19.emit.addr_type", "C19", EMIT, entry="h_emit_addr_type", defines={"NS": "6", "PS": "3", "SYMCFG": None},
                    mode="proof", replayable=True, cbmc=UNWIND, timeout=600, bound=SPACE + ", every int as slot/sub index",
                    functions=["setSlotSub"], solver=SOLVER))
    fp("emit.range_f", "h_emit_range", {})
    fp("emit.range_i", "h_emit_range", {"TYPE_I": None})
    fp("updateMapping.points", "h_updateMapping_points", {})
    if ctx.tier != "quick":
        # exact end points / linearity at default gain and offset: decided with kissat (cbmc's built-in minisat does
        # not finish them); measured 110..460 s each on a heavily loaded machine
        K = dict(solver=SOLVER)
        fp("emit.default_endpoints_i", "h_emit_default_linear", {"TYPE_I": None}, timeout=1200, **K)
        fp("emit.default_endpoints_f", "h_emit_default_linear", {}, timeout=1200, **K)
        fp("emit.default_endpoints_T", "h_emit_default_linear", {"TYPE_T": None}, timeout=1200, **K)
        fp("emit.default_linear_i", "h_emit_default_linear", {"TYPE_I": None, "LINEAR_MID": None}, timeout=1800, **K)
        if os.environ.get("C19_FP_HARD"):
            # NOT decided by CBMC inside an hour on the development machine (two coupled 24x24 bit multipliers): when they
            # time out they are reported undecided (exit 2); they are never claimed
            fp("emit.monotone_f", "h_emit_monotone", {}, timeout=3600, **K)
            fp("emit.monotone_i", "h_emit_monotone", {"TYPE_I": None}, timeout=3600, **K)
            fp("emit.monotone_T", "h_emit_monotone", {"TYPE_T": None}, timeout=3600, **K)
            fp("emit.default_linear_f", "h_emit_default_linear", {"LINEAR_MID": None}, timeout=3600, **K)
    return obls


def canaries(ctx):
    """vacuity guards: same harnesses with -DVERIF_CANARY (every V_COVER must be reachable), small variant"""
    c = []
    def can(name, harness, entry, defs, **kw):
        d = dict(defs, NS="3", PS="2")
        c.append(Obl("C19.canary.%s" % name, "C19", harness, entry=entry, defines=d, mode="proof", cbmc=UNWIND,
                     canary=True, replayable=False, **dict(dict(timeout=600), **kw)))   # many failing goals: incremental built-in solver
    can("clearSlot", OPS, "h_clearSlot", {"SYMCFG": None})
    can("handleMidi", OPS, "h_handleMidi", dict(REPL, SYMCFG=None))
    can("enqueue", OPS, "h_enqueue", {"SYMCFG": None})
    can("setSlot", OPS, "h_setSlot", {"SYMCFG": None, "FIXED_SLOT": "1"})
    can("setSlotSub", OPS, "h_setSlotSub", {"SYMCFG": None, "ANY_INDEX": None})
    can("frame", OPS, "h_clearSlotSub", {"SYMCFG": None})
    can("emit.addr_type", EMIT, "h_emit_addr_type", {"SYMCFG": None})
    can("emit.range_f", EMIT, "h_emit_range", {})
    can("emit.range_i", EMIT, "h_emit_range", {"TYPE_I": None})
    can("updateMapping.points", EMIT, "h_updateMapping_points", {})
    if ctx.tier != "quick":
        K = dict(solver=SOLVER, timeout=1200)     # the canary run also has to decide the expensive assertions
        can("emit.default_endpoints_i", EMIT, "h_emit_default_linear", {"TYPE_I": None}, **K)
        can("emit.default_endpoints_f", EMIT, "h_emit_default_linear", {}, **K)
        can("emit.default_endpoints_T", EMIT, "h_emit_default_linear", {"TYPE_T": None}, **K)
    return c


def obligations(ctx):
    return op_obligations(ctx) + emit_obligations(ctx) + canaries(ctx)


def static_checks(ctx):
    """Base case of the induction: the real constructor, executed natively for every configuration (see base_case.cpp)."""
    name = "C19.base_case.constructor"
    try:
        exe = os.path.join(ctx.scratch, "base_case")
        cmd = ["g++", "-std=c++11", "-O1", "-w", "-ffunction-sections", "-fdata-sections",
               "-I", os.path.join(ctx.repo, "include"), "-I", os.path.join(ctx.repo, "src"), "-I", os.path.join(vlib.VERIF, "spec"),
               os.path.join(vlib.VERIF, "harness/C19/base_case.cpp"), os.path.join(ctx.repo, "src/cpp/automations.cpp"),
               "-Wl,--gc-sections", "-o", exe]
        rc, txt, _ = vlib.sh(cmd, 300, 16)
        if rc != 0:
            ctx.infra_errors.append("%s: native build failed: %s" % (name, txt[-600:]))
            return []
        rc, txt, _ = vlib.sh(["timeout", "60", exe], 120, 16)
        if rc not in (0, 1):
            ctx.infra_errors.append("%s: native run ended with rc=%s: %s" % (name, rc, txt[-600:]))
            return []
        ctx.notes.append("%s: %s" % (name, txt.strip().splitlines()[-1] if txt.strip() else "no output"))
        return [{"name": name, "ok": rc == 0, "detail": txt[-3000:],
                 "what": "freshly constructed AutomationMgr satisfies INV, all 18 configurations x 2 storage fill patterns"}]
    except Exception as e:      # never let an infrastructure problem look like a verdict
        ctx.infra_errors.append("%s: %r" % (name, e))
        return []
