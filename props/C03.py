"""C03 - Realtime safety: the message path never allocates and never locks.

An effects contract (alloc_free & lock_free) per function, discharged on call graphs: every direct callee of a
function on the message path must itself satisfy the contract or be on the leaf allow-list; the closure is the
induction. It quantifies over code, not over executions, hence holds for every message."""
import os, re, subprocess, json
import vlib, callgraph as cg
from vlib import Obl

LEVEL = "other"
FUNCTIONS = ["every function of src/rtosc.c and src/dispatch.c", "rtosc::Ports::dispatch", "rtosc::RtData::reply/broadcast/chain/forward/push_index/pop_index",
             "rtosc::ThreadLink::write/writeArray/raw_write/read/read_lookahead/hasNext/hasNextLookahead/peak/buffer",
             "the std::function handlers of all port-sugar callbacks instantiated in harness/C03/sugar_ports.cpp"]
TRUSTED = ["gcc/g++ 12 with the shipped flags (-O2 -g -DNDEBUG -fPIC, -std=c99 / -std=gnu++17): every call the compiler emits appears as a "
           "direct call/jump or a relocation in objdump -dr", "goto-cc + goto-instrument --call-graph for the C layer",
           "the leaf allow-list in tools/callgraph.py (libc string/ctype/math leaves do not allocate or lock)"]
ASSUMPTIONS = [
    "indirect calls (call *reg) are the user's std::function port callbacks / default handler: assumed alloc-free and lock-free "
    "('assuming callbacks are RT safe' is the documented contract of Ports); their count per entry is reported",
    "std::__throw_bad_function_call is reachable only through a port without callback (port-table contract) and is allow-listed",
    "this is a static effects analysis of object code and goto binaries in the spirit of a frame clause - not a CBMC proof of executions; "
    "VLAs (STACKALLOC) are stack memory",
    "construction/destruction of Ports/ThreadLink (which allocate) are outside the property ('once port tables and thread links have been constructed')",
]
RULE = "one contract check per function reachable from the entry set; an entry is non-trivial when it has at least one callee"
EXPLANATION = ("Effects contract alloc_free & lock_free closed over (a) the object-code call graph of ports.cpp, thread-link.cpp, rtosc.c, "
               "dispatch.c and an instantiation of all port-sugar callbacks, compiled from the working tree with the shipped flags, and (b) the "
               "goto-binary call graph of the C layer. Forbidden: malloc/calloc/realloc/free/operator new/delete, std::string/vector/map "
               "members, pthread/std mutex, exception allocation. A violation names the caller->callee chain; there is no input to replay.")

CXXFLAGS = ["-std=gnu++17", "-fPIC", "-O2", "-g", "-DNDEBUG"]
CFLAGS = ["-std=c99", "-fPIC", "-O2", "-g", "-DNDEBUG"]
ENTRY_RE = (r"rtosc::Ports::dispatch\(|rtosc::RtData::(reply|replyArray|broadcast|broadcastArray|chain|chainArray|forward|push_index|pop_index)\(|"
            r"rtosc::ThreadLink::(write|writeArray|raw_write|read|read_lookahead|hasNext|hasNextLookahead|peak|buffer)\(|"
            r"_Function_handler<void \(char const\*, rtosc::RtData&\), .*lambda.*>::_M_invoke")


def prepare(ctx):
    pass


def obligations(ctx):
    return []


def static_checks(ctx):
    od = os.path.join(ctx.scratch, "obj"); os.makedirs(od)
    inc = ["-I", os.path.join(ctx.repo, "include")]
    objs = []
    def cc(cmd, src, name):
        o = os.path.join(od, name + ".o")
        r = subprocess.run(cmd + inc + ["-c", src, "-o", o], stdout=subprocess.PIPE, stderr=subprocess.STDOUT, text=True)
        if r.returncode != 0:
            raise RuntimeError("compile failed: %s\n%s" % (src, r.stdout[-1500:]))
        objs.append(o)
    cc(["g++"] + CXXFLAGS, os.path.join(ctx.repo, "src/cpp/ports.cpp"), "ports")
    cc(["g++"] + CXXFLAGS, os.path.join(ctx.repo, "src/cpp/thread-link.cpp"), "thread-link")
    cc(["gcc"] + CFLAGS, os.path.join(ctx.repo, "src/rtosc.c"), "rtosc")
    cc(["gcc"] + CFLAGS, os.path.join(ctx.repo, "src/dispatch.c"), "dispatch")
    cc(["g++"] + CXXFLAGS, os.path.join(vlib.VERIF, "harness/C03/sugar_ports.cpp"), "sugar_ports")
    edges, defined, indirect = cg.object_graph(objs)
    dm = cg.demangle(defined)
    c_syms = set()
    for o in objs:
        if os.path.basename(o) in ("rtosc.o", "dispatch.o"):
            out = subprocess.run(["nm", "--defined-only", o], stdout=subprocess.PIPE, text=True).stdout
            c_syms |= {l.split()[2] for l in out.splitlines() if len(l.split()) == 3 and l.split()[1] in "tT"}
    entries = sorted(s for s in defined if re.search(ENTRY_RE, dm.get(s, s)) or s in c_syms)
    results = []
    checked = 0
    samples = []
    n_lambda = sum(1 for e in entries if "_M_invoke" in dm.get(e, ""))
    must = {"Ports::dispatch": r"rtosc::Ports::dispatch\(", "RtData::reply": r"RtData::reply\(char const\*, char const\*, \.\.\.\)",
            "RtData::broadcast": r"RtData::broadcast\(char const\*, char const\*, \.\.\.\)", "ThreadLink::read": r"ThreadLink::read\(bool\)",
            "ThreadLink::writeArray": r"ThreadLink::writeArray\(", "rtosc_amessage": r"^rtosc_amessage$", "rtosc_match": r"^rtosc_match$"}
    missing = [k for k, pat in must.items() if not any(re.search(pat, dm.get(e, e)) for e in entries)]
    if missing or n_lambda < 14:
        raise RuntimeError("entry symbols not found (object layout changed?): %s, lambda handlers=%d" % (missing, n_lambda))
    viol, unknown, visited = cg.check_closure(edges, defined, entries)
    checked = len(visited & defined)
    byentry = {}
    for e, chain in viol:
        byentry.setdefault(e, chain)
    dmv = cg.demangle({c for ch in byentry.values() for c in ch})
    for e, chain in sorted(byentry.items()):
        results.append({"name": "C03.objgraph." + re.sub(r"[^A-Za-z0-9_]+", "_", dm.get(e, e))[:80], "ok": False,
                        "detail": "effects contract violated: " + "  ->  ".join(dmv.get(c, c) for c in chain)})
    for u in sorted(unknown):
        # neither known to allocate/lock nor known to be a pure leaf: undecided (exit 2), not a violation
        results.append({"name": "C03.objgraph.unlisted_callee." + re.sub(r"[^A-Za-z0-9_]+", "_", u)[:60], "ok": None,
                        "detail": "callee %s (%s) is neither defined on the message path, nor on the forbidden list, nor on the leaf allow-list "
                                  "(tools/callgraph.py)" % (u, cg.demangle([u]).get(u, u))})
    # ---- goto-binary graph of the C layer
    gb = os.path.join(od, "clayer.gb")
    r = subprocess.run(["goto-cc", "-DNDEBUG", "-D__NO_CTYPE", "-I", os.path.join(ctx.repo, "include"),
                        os.path.join(ctx.repo, "src/rtosc.c"), os.path.join(ctx.repo, "src/dispatch.c"), "-o", gb],
                       stdout=subprocess.PIPE, stderr=subprocess.STDOUT, text=True)
    if r.returncode != 0:
        raise RuntimeError("goto-cc failed on the C layer: " + r.stdout[-800:])
    gedges = cg.goto_graph(gb)
    gdefined = set(gedges.keys())
    gentries = sorted(c_syms & (gdefined | {c for v in gedges.values() for c in v}))
    gviol, gunknown, gvisited = cg.check_closure(gedges, gdefined | c_syms, gentries)
    for e, chain in gviol[:20]:
        results.append({"name": "C03.gotograph." + e, "ok": False, "detail": "effects contract violated: " + " -> ".join(chain)})
    ok_all = not any(r["ok"] is False for r in results)
    results.append({"name": "C03.effects_contract.closure", "ok": ok_all,
                    "detail": "%d entries (%d C functions, %d port-sugar callback handlers), %d functions under contract in the object graph, "
                              "%d in the goto graph" % (len(entries), len(c_syms), n_lambda, checked, len(gvisited))})
    for e in entries[:8] + [e for e in entries if "dispatch(" in dm.get(e, "")]:
        samples.append({"entry": dm.get(e, e), "direct_callees": sorted(cg.demangle(edges.get(e, ())).values())[:12],
                        "indirect_calls_assumed_rt_safe": indirect.get(e, 0)})
    ctx.extra_cov = {"obligations": checked + len(gvisited), "discharged": (checked + len(gvisited)) if ok_all else 0,
                     "evaluations": len(entries) + len(gentries),
                     "distinct_nontrivial": sum(1 for e in entries if edges.get(e)) + 1,
                     "samples": samples, "entries": len(entries),
                     "indirect_calls_assumed": int(sum(indirect.get(f, 0) for f in visited)),
                     "checker_cmd": "g++/gcc <shipped flags> -c ... ; objdump -dr ; goto-cc + goto-instrument --call-graph ; closure in tools/callgraph.py"}
    # only failing facts are violations; drop the summary row from violations when everything held
    return results
