"""C01 - OSC 1.0 wire format: encoding is spec-exact and decoding is lossless."""
import os
import vlib, shapes
from vlib import Obl

LEVEL = "model_checking"
FUNCTIONS = ["rtosc_amessage", "vsosc_null", "nreserved", "has_reserved", "rtosc_message", "rtosc_vmessage", "rtosc_v2args",
             "rtosc_message_length", "rtosc_message_ring_length", "rtosc_valid_message_p", "rtosc_argument_string",
             "rtosc_narguments", "rtosc_type", "rtosc_argument", "arg_off", "arg_size", "arg_start", "extract_arg",
             "rtosc_itr_begin", "rtosc_itr_next", "rtosc_itr_end", "rtosc_avmessage"]
TRUSTED = ["CBMC 6.11.0 (goto-cc, cbmc; built-in SAT back end), its va_list and memset/strlen models",
           "spec/osc_spec.h (the executable OSC 1.0 specification, written from the property statement)",
           "x86-64 LP64 bit-vector semantics; -DNDEBUG as shipped"]
ASSUMPTIONS = [
    "bounded: tag string, address and every string/blob LENGTH are fixed per obligation by the shape generator (tools/shapes.py); "
    "inside a shape every numeric payload bit pattern, MIDI/blob byte, capacity and previous buffer content is symbolic",
    "string bytes come from a fixed non-NUL pattern except in the '_sym' shapes, where they are symbolic non-NUL bytes",
    "varargs constructor: 'f' arguments that are NaN are excluded (C's float->double->float promotion need not keep NaN payloads)",
    "functional correctness for unbounded tag strings is not provable with CBMC loop contracts (no recursive spec function in an invariant)",
]
RULE = ("one obligation per generated shape; a shape is non-trivial when it produced >0 cbmc properties; distinct by shape key "
        "(address length, tag string, string/blob lengths, NULL-blob set)")
EXPLANATION = ("Bounded, exhaustive per shape: encoder output == spec_encode byte for byte at every capacity, message_length agrees, every "
               "accessor and the iterator return the original types and bit-identical values.")

PROPDEF = "PROP_C01"
PID = "C01"


def prepare(ctx):
    pass


def shape_obligations(ctx, pid, propdef, shapes_list):
    raw = '"%s"' % os.path.join(ctx.repo, "src/rtosc.c")
    obls = []
    for sh in shapes_list:
        path = shapes.write_shape(ctx.scratch, sh)
        obls.append(Obl("%s.shape.%s" % (pid, sh.key()), pid, "harness/C01/shape.c", entry="h_shape",
                        defines={"RTOSC_C": raw, "SHAPE_H": '"%s"' % path, propdef: None}, mode="bounded",
                        bound="shape-bounded: tags/lengths fixed per shape, payloads+capacity symbolic",
                        cbmc=["--unwind", str(sh.need() + 12), "--unwinding-assertions"], timeout=900, mem_gb=(16 if ctx.tier == "quick" else 13),
                        case=sh.describe()))
    return obls


def av_obligations(ctx, pid, shapes_list):
    """rtosc_avmessage on the shapes without brackets (every 3rd in quick)."""
    d = {"RTOSC_C": '"%s"' % os.path.join(ctx.repo, "src/rtosc.c")}
    for k, f in (("ARGVAL_C", "arg-val.c"), ("ARGVAL_ITR_C", "arg-val-itr.c"), ("ARGEXT_C", "arg-ext.c"),
                 ("ARGVAL_MATH_C", "arg-val-math.c")):
        d[k] = '"%s"' % os.path.join(ctx.repo, "src/cpp", f)
    obls = []
    for sh in shapes_list:
        if "[" in sh.tags or "]" in sh.tags or not sh.tags:
            continue
        path = shapes.write_shape(ctx.scratch, sh)
        obls.append(Obl("%s.avmessage.%s" % (pid, sh.key()), pid, "harness/C01/avmessage.c", entry="h_avmessage",
                        defines=dict(d, SHAPE_H='"%s"' % path), includes=[os.path.join(ctx.repo, "src/cpp")], mode="bounded",
                        bound="shape-bounded: tags/lengths fixed per shape, payloads+capacity symbolic",
                        cbmc=["--unwind", str(sh.need() + 12), "--unwinding-assertions"], timeout=900, mem_gb=(16 if ctx.tier == "quick" else 13),
                        case=sh.describe()))
    return obls


def lf_obligations(ctx):
    raw = '"%s"' % os.path.join(ctx.repo, "src/rtosc.c")
    obls = []
    for e, fns in (("h_has_reserved", ["has_reserved"]), ("h_arg_size_fixed", ["arg_size"]), ("h_arg_size_var", ["arg_size"]),
                   ("h_endian", ["emplace_uint32", "emplace_uint64", "extract_uint32", "extract_uint64"]), ("h_extract_arg", ["extract_arg"])):
        obls.append(Obl("C01.lf.%s" % e[2:], "C01", "harness/C01/lf.c", entry=e, defines={"RTOSC_C": raw}, mode="proof",
                        cbmc=["--unwind", "20", "--unwinding-assertions"], timeout=600, functions=fns, replayable=False,
                        note="loop-free / constant-bound harness over the full value domain"))
    for e in ("h_has_reserved", "h_arg_size_fixed", "h_extract_arg"):
        obls.append(Obl("C01.canary.%s" % e[2:], "C01", "harness/C01/lf.c", entry=e, defines={"RTOSC_C": raw}, mode="proof",
                        cbmc=["--unwind", "20"], timeout=600, canary=True))
    return obls


def obligations(ctx):
    sl = shapes.enumerate_shapes(ctx.tier, ctx.seed)
    if ctx.tier != "quick":
        vlib.JOBS = min(vlib.JOBS, 4)     # multi-blob shapes need 7-11 GB each (a 62 GB machine was OOM-killed with more in parallel)
    obls = lf_obligations(ctx) + shape_obligations(ctx, PID, PROPDEF, sl)
    avs = [s for s in sl if not s.symstr]
    if ctx.tier == "quick":
        avs = [s for i, s in enumerate(avs) if i % 3 == 0 or s.tags in ("Ti", "TsN", "hT", "sT", "Tb")]
    obls += av_obligations(ctx, PID, avs)
    return obls
