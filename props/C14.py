"""C14 - Parameter ports clamp to their declared range and report every change (stretch; DESIGN route R3).

The real macro bodies of include/rtosc/port-sugar.h are compiled by CBMC's C++ front end, each as the body of a
named function: prepare() regenerates the prologue macro rBOIL_BEGIN from the header's own text with two
must-fire substitutions and writes it to <ctx.ext>/c14_boil.h; every r*Cb(name) body is the header's token
sequence.  Collaborators are harness-side contracts (contracts/sugar.h), the oracle is spec/clamp_spec.h."""
import os, re
import vlib, extract
from vlib import Obl

LEVEL = "proof"
HEADER = "include/rtosc/port-sugar.h"
FUNCTIONS = ["rBOIL_BEGIN", "rBOILS_BEGIN", "rLIMIT", "rCAPPLY", "rAPPLY", "rParamCb", "rParamICb", "rParamFCb",
             "rToggleCb", "rCOptionCb_", "rOptionCb_", "rOptionCb", "rArrayFCb", "rArrayICb", "rArrayTCb",
             "rArrayOptionCb", "rStringCb"]
TRUSTED = ["CBMC 6.11.0 C++ front end (goto-cc on a .cpp harness): macro expansion, decltype, static_cast, overload "
           "resolution by promotion (char/bool/enum->int, float->double), IEEE-754 binary32/64 bit-vector semantics, "
           "round-to-nearest; CBMC's library models of strcmp, strncpy, isdigit",
           "harness/C14/stubs: <cstring>, <type_traits> (std::remove_reference), rtosc::RtData / rtosc::Port::MetaContainer "
           "(non-variadic reply/broadcast overloads instead of the variadic members; the overload chosen = the promoted "
           "argument types the real variadic call pushes)",
           "spec/clamp_spec.h (clamp / truncation / undo-count written from the property statement)",
           "x86-64 LP64, plain char signed; -DNDEBUG as shipped (the assert()s in rCOptionCb_ are compiled out)"]
ASSUMPTIONS = [
    "route R3: rBOIL_BEGIN is regenerated from the header text by two substitutions (lambda introducer '[]' dropped -> named "
    "function; 'auto prop =' -> 'rtosc::Port::MetaContainer prop ='); the std::function wrapper around the callback is dropped; "
    "port-sugar.h is read through a per-run copy that is byte-identical unless the may-fire rule decl-in-cond rewrites "
    "`if(T x = e) S` to `T x = e; if(x) S` (logged in notes; 0 firings on the pinned tree)",
    "collaborator contract (proved under C01): rtosc_argument_string(msg) returns the tag string, rtosc_argument(msg,0) the "
    "first argument, of the dispatched message; the callback may call them only on that message, argument 0 must exist",
    "collaborator contract (proved under C17): prop[\"min\"] / prop[\"max\"] return the declared value text or NULL when the key "
    "is not declared; no other key is looked up",
    "collaborator contract (assumed, libc): atoi/atof of the declared min/max text return the declared number (symbolic); "
    "atoi on the first digit of the decimal index in the address returns that index",
    "collaborator contract (assumed): enum_key(meta, symbol) returns the index of a KNOWN symbol (unknown symbols excluded by "
    "the property); found via a using-declaration because CBMC has no argument-dependent lookup",
    "collaborator contract: RtData::reply/broadcast only record (channel, path, format, promoted C type and value of each argument)",
    "input domain: declared ranges are non-empty (min <= max in the storage type); for char-backed kinds (rParam, rArrayI) "
    "min/max are representable in char and incoming values are -128..127 (property quantifier); float bounds are the declared "
    "double converted to float; NaN is excluded as incoming value, as previous value and as bound",
    "'changed' means value inequality (+0.0 -> -0.0 is not a change); 'the port's full address' is the pointer RtData::loc",
    "array ports: 12 elements, address 'p<idx>' with one- or two-digit decimal idx 0..11, frame shown through a ghost index; "
    "option ports are int-backed (an enum-backed instantiation is not covered)",
    "rStringCb is bounded (declared length 8, incoming text 0..11 symbolic bytes); everything else is full-domain",
    "C++ harness: no native replay build exists in vlib (replayable=False); defects are shown natively by findings/c14_*.cpp",
]
RULE = ("one obligation per (callback kind, operation); non-trivial when >0 cbmc properties were generated; distinct by name; "
        "callback bodies are loop-free except rBOILS_BEGIN's scan for the first digit of a fixed-shape address and the strcmp/"
        "strncpy models, which are unwound completely under --unwinding-assertions")
EXPLANATION = ("Full-domain symbolic runs of the real port-sugar.h callback bodies (all 2^32 ints / non-NaN floats, every "
               "min/max or none, every previous value) against the clamp spec: stored value, query reply + frame, broadcast, "
               "undo event count/address/new value (.set) and the previous value carried by the undo event (.undo_prev).")

KINDS = [  # (macro, ops)    ops: 0 query, 1 set, 2 set by option symbol
    ("rParamCb", (0, 1)), ("rParamICb", (0, 1)), ("rParamFCb", (0, 1)), ("rToggleCb", (0, 1)),
    ("rOptionCb", (0, 1, 2)), ("rArrayFCb", (0, 1)), ("rArrayICb", (0, 1)), ("rArrayTCb", (0, 1)),
    ("rArrayOptionCb", (0, 1, 2)),
]
OPNAME = {0: "query", 1: "set", 2: "set_symbol"}
UNDO_KINDS = ["rParamCb", "rParamICb", "rParamFCb", "rOptionCb", "rArrayFCb", "rArrayICb", "rArrayOptionCb"]
HARNESS = "harness/C14/sugar.cpp"
STUBS = os.path.join(vlib.VERIF, "harness", "C14", "stubs")

LAMBDA_FROM = r"\[\]\(const char \*msg, rtosc::RtData &data\) \{"
LAMBDA_TO = "(const char *msg, rtosc::RtData &data) {"
AUTO_FROM = r"\bauto prop ="
AUTO_TO = "rtosc::Port::MetaContainer prop ="


DECL_TYPE = r"(?:const\s+)?(?:unsigned\s+|signed\s+)?(?:char|int|long|short|float|double|bool|auto|size_t|[A-Za-z_][\w:]*_t)\s*(?:const\s*)?[*&]?\s*(?:const\s+)?"


def normalise_decl_in_condition(src, log):
    """CBMC 6.11's C++ front end crashes on a declaration used as a condition (`if(T x = e) S`).  May-fire rule
    `decl-in-cond`: such a statement is rewritten to `T x = e; if(x) S` - the same evaluation order and the same
    branch; only the scope of x widens to the enclosing block (a clash of names is then a compile error = undecided,
    never a verdict).  It fires only where the `if` starts a statement of a block (previous token is ';', '{' or '}', or the `#define NAME(args)` head of the macro),
    so an `if` that is itself the unbraced body of another statement is left alone.  Fires 0 times on the pinned tree,
    where the generated file is byte-identical to the header."""
    out, pos, fired = [], 0, 0
    for m in re.finditer(r"\bif\s*\(", src):
        if m.start() < pos:
            continue
        depth, k = 1, m.end()
        while k < len(src) and depth:
            depth += {"(": 1, ")": -1}.get(src[k], 0)
            k += 1
        if depth:
            continue
        cond = src[m.end():k - 1]
        d = re.match(r"^\s*(%s)([A-Za-z_]\w*)\s*=(?!=)(.*)$" % DECL_TYPE, cond, re.S)
        if not d or "\n" in cond.replace("\\\n", ""):
            continue
        before = re.sub(r"(\\\n|\s)+$", "", src[:m.start()])
        first_of_macro = re.match(r"#\s*define\s+\w+(\([^()]*\))?$", before.rsplit("\n", 1)[-1].strip())
        if not before or (before[-1] not in ";{}" and not first_of_macro):
            continue
        out.append(src[pos:m.start()])
        out.append("%s%s =%s; if(%s)" % (d.group(1), d.group(2), d.group(3), d.group(2)))
        pos = k
        fired += 1
    out.append(src[pos:])
    log.append("extract rule %-12s in %-28s fired %d (may-fire; 0 = byte-identical copy)" % ("decl-in-cond", HEADER, fired))
    res = "".join(out)
    if fired == 0 and res != src:
        raise extract.ExtractError("decl-in-cond: copy differs although the rule did not fire")
    return res


def prepare(ctx):
    src = extract.read(ctx.repo, HEADER)
    nlog = []
    os.makedirs(os.path.join(ctx.ext, "c14"), exist_ok=True)
    extract.write(ctx, "c14/port-sugar.h", normalise_decl_in_condition(src, nlog))
    # the prologue macro: from '#define rBOIL_BEGIN' to the first line that does not end in a backslash
    m = re.search(r"^#define rBOIL_BEGIN[^\n]*\\\n(?:[^\n]*\\\n)*[^\n]*\n", src, re.M)
    if not m:
        raise extract.ExtractError("macro rBOIL_BEGIN (multi-line) not found in %s" % HEADER)
    text = m.group(0)
    log = []
    text = extract.apply_rules(text, [
        ("lambda->named", LAMBDA_FROM, LAMBDA_TO, 1),
        ("auto-prop", AUTO_FROM, AUTO_TO, 1),
    ], log, "rBOIL_BEGIN")
    # nothing else in the header may open a callback lambda through another route for the kinds under test:
    # every r*Cb under test must start with rBOIL_BEGIN or rBOILS_BEGIN
    for name in ["rParamCb", "rParamICb", "rParamFCb", "rToggleCb", "rOptionCb", "rArrayFCb", "rArrayICb", "rArrayTCb",
                 "rArrayOptionCb", "rStringCb"]:
        if not re.search(r"^#define %s\([^)]*\)\s+rBOILS?_BEGIN\b" % name, src, re.M):
            raise extract.ExtractError("%s no longer starts with rBOIL_BEGIN / rBOILS_BEGIN" % name)
    if not re.search(r"^#define rBOILS_BEGIN rBOIL_BEGIN\b", src, re.M):
        raise extract.ExtractError("rBOILS_BEGIN no longer starts with rBOIL_BEGIN")
    out = ("/* GENERATED by props/C14.py from %s on every run - do not edit.\n"
           " * The header's own rBOIL_BEGIN with the lambda introducer dropped and 'auto prop' given its type. */\n"
           "#undef rBOIL_BEGIN\n%s") % (os.path.join(ctx.repo, HEADER), text)
    extract.write(ctx, "c14_boil.h", out)
    ctx.notes += nlog + log


def _obl(kind, op, suffix="", defines=None, **kw):
    d = {"C14_OP": str(op)}
    d.update(defines or {})
    return Obl("C14.%s.%s%s" % (kind, OPNAME[op], suffix), "C14", HARNESS, entry="h_" + kind, defines=d,
               includes=[STUBS], cxx=True, replayable=False, mode="proof",
               cbmc=["--unwind", "16", "--unwinding-assertions", "--drop-unused-functions"], timeout=170, mem_gb=8,
               functions=[kind], case={"callback": kind, "operation": OPNAME[op]}, **kw)


def obligations(ctx):
    obls = []
    for kind, ops in KINDS:
        for op in ops:
            obls.append(_obl(kind, op))
    for kind in UNDO_KINDS:
        o = _obl(kind, 1, defines={"C14_ONLY_PREV": None})
        o.name = "C14.%s.undo_prev" % kind
        obls.append(o)
    for kind in ("rOptionCb", "rArrayOptionCb"):
        o = _obl(kind, 2, defines={"C14_ONLY_PREV": None})
        o.name = "C14.%s.undo_prev_symbol" % kind
        obls.append(o)
    # strings: strncpy is a loop over symbolic bytes -> bounded
    for op in (0, 1):
        o = _obl("rStringCb", op)
        if op == 1:
            o.mode, o.bound = "bounded", "declared length 8; incoming text of 0..11 symbolic bytes"
            o.replayable = False
        obls.append(o)
    # vacuity canaries: every V_COVER goal of the set/query harness of each family must be reachable
    for kind, op in [("rParamCb", 1), ("rParamICb", 1), ("rParamFCb", 1), ("rToggleCb", 1), ("rOptionCb", 1),
                     ("rArrayFCb", 1), ("rArrayICb", 1), ("rArrayTCb", 1), ("rArrayOptionCb", 2), ("rStringCb", 1),
                     ("rParamFCb", 0)]:
        o = _obl(kind, op, canary=True)
        o.name = "C14.%s.%s.canary" % (kind, OPNAME[op])
        obls.append(o)
    o = _obl("rParamICb", 1, defines={"C14_ONLY_PREV": None}, canary=True)
    o.name = "C14.rParamICb.undo_prev.canary"
    obls.append(o)
    return obls
