"""C06 - ThreadLink is a lossless FIFO between two threads under every interleaving.

What contracts decide here: the sequential contract of every ring operation, frames (who writes which index and which
bytes), stability of each side's view under the other side's permitted actions (stale-snapshot lemmas) and the
copy-before-publish order. The two-thread composition itself is a paper step (see DESIGN 6/C06, listed under assumptions)."""
import os, re
import vlib, extract
from vlib import Obl

LEVEL = "proof"
FUNCTIONS = ["ring_read_size", "ring_write_size", "ring_write", "ring_read", "ring_read_vector",
             "ThreadLink::write", "ThreadLink::writeArray", "ThreadLink::raw_write", "ThreadLink::hasNext", "ThreadLink::read"]
TRUSTED = ["CBMC 6.11.0 (goto-cc, goto-instrument --dfcc, cbmc; built-in SAT back end); CBMC's built-in memcpy (array copy) in the content obligations",
           "extraction rules of tools/extract.py as listed in infrastructure_notes (atomic: std::atomic<off_t> -> off_t DROPS atomicity and ordering on purpose)",
           "x86-64 LP64 bit-vector semantics; -DNDEBUG as shipped (the asserts in thread-link.cpp are compiled out)"]
ASSUMPTIONS = [
    "PAPER STEP (not machine-checked): one thread runs only writer operations, one only reader operations; the three indices are std::atomic "
    "with seq_cst accesses, so copy-then-publish program order is what the other thread observes; per-operation contracts + frames + "
    "stale-snapshot lemmas + publication order then give linearizability to the sequential FIFO",
    "interleavings are not enumerated; weaker memory models are not covered",
    "index/frame obligations: ring size 2..2^30; content obligations: ring size bounded as stated per obligation (built-in memcpy)",
    "ThreadLink::read is verified under the rely condition that the message at the head is <= MaxMsg, which is the guarantee proved for every writer operation (raw_write/writeArray)",
    "rtosc_message_ring_length / rtosc_amessage / rtosc_message_length are replaced by their contracts (proved under C07 / C02)",
]
RULE = "one obligation per ring operation and clause (contract enforced, callees replaced by contracts); non-trivial when >0 cbmc properties"
EXPLANATION = ("Sequential contracts of every ring/ThreadLink operation, frame conditions, stale-snapshot stability lemmas and the "
               "copy-before-publish order are discharged by CBMC on the mechanically extracted text of thread-link.cpp; the "
               "rely/guarantee composition for two threads is a stated paper step.")

TL = "src/cpp/thread-link.cpp"
TLH = "include/rtosc/thread-link.h"


def prepare(ctx):
    src = extract.read(ctx.repo, TL)
    hdr = extract.read(ctx.repo, TLH)
    log = ctx.notes
    # ---- types
    offt = extract.cut_between(src, r"#define off_t signed long", r"\n")
    st = extract.cut_struct(src, "internal_ringbuffer_t")
    st = extract.apply_rules(st, [("atomic", r"std::atomic<off_t>", "off_t", 3)], log, "internal_ringbuffer_t")
    td = extract.cut_between(src, r"typedef internal_ringbuffer_t ringbuffer_t;", r"")
    td = extract.apply_rules(td, [("c-struct-tag", r"typedef internal_ringbuffer_t", "typedef struct internal_ringbuffer_t", 1)], log, "typedef")
    members = extract.cut_between(hdr, r"private:\n", r"struct internal_ringbuffer_t \*ring;")
    members = extract.apply_rules(members, [("struct-lift", r"private:\n", "", 1)], log, "ThreadLink members")
    for m in ("MaxMsg", "BufferSize", "write_buffer", "read_buffer", "ring"):
        if not re.search(r"\b%s;" % m, members):
            raise extract.ExtractError("ThreadLink member %s not found" % m)
    types = ("/* extracted from %s and %s on this run */\n%s\ntypedef const char *msg_t;\n%s\n%s\nstruct ThreadLink {\n%s\n};\n"
             % (TL, TLH, offt, st, td, members))
    extract.write(ctx, "thread_link_types.inc", types)
    # ---- ring functions (C-compatible as they stand)
    funcs = []
    for fn in ("ring_read_size", "ring_write_size", "ring_write", "ring_read", "ring_read_vector"):
        funcs.append(extract.cut_function(src, fn))
        log.append("extracted verbatim: %s" % fn)
    extract.write(ctx, "thread_link_ring.inc", "\n".join(funcs) + "\n")
    # ---- interference variant: every load of the OTHER side's index goes through an observation point at which that
    # side may have made any progress its contract allows (reader-side functions observe `write`, writer-side `read`)
    obs = []
    for fn, pat, rep in (("ring_read_size", r"ring->write\b", "OBS_WRITE(ring)"), ("ring_read_vector", r"ring->write\b", "OBS_WRITE(ring)"),
                         ("ring_write_size", r"ring->read\b(?!_)", "OBS_READ(ring)")):
        t = extract.cut_function(src, fn)
        t = extract.apply_rules(t, [("observe", pat, rep, (0, 99))], log, fn + " (interference variant)")
        obs.append(t)
    extract.write(ctx, "thread_link_ring_obs.inc", "\n".join(obs) + "\n")
    # ---- ThreadLink methods
    meths = []
    for name, occ, ret in (("write", 1, "void"), ("writeArray", 1, "void"), ("raw_write", 1, "void"), ("hasNext", 1, "bool"), ("read", 1, "msg_t")):
        t = extract.cut_function(src, name, occurrence=occ, qualifier="ThreadLink")
        t = extract.apply_rules(t, [
            ("method", r"^%s\s+ThreadLink::%s\(" % (ret, name), "%s ThreadLink_%s(struct ThreadLink *self, " % (ret, name), 1),
            ("method-const", r"\)\s*const\s*\{" if name == "hasNext" else r"\)\s*\{", ") {", 1 if name == "hasNext" else None),
        ], log, "ThreadLink::" + name)
        meths.append(t)
    defs = "".join("#define %s (self->%s)\n" % (m, m) for m in ("MaxMsg", "BufferSize", "write_buffer", "read_buffer", "ring"))
    undefs = "".join("#undef %s\n" % m for m in ("MaxMsg", "BufferSize", "write_buffer", "read_buffer", "ring"))
    extract.write(ctx, "thread_link_methods.inc", defs + "\n".join(meths) + "\n" + undefs)


def static_checks(ctx):
    """Supporting static fact for the paper step: the indices are std::atomic and no access names a weaker memory order."""
    src = extract.read(ctx.repo, TL)
    st = extract.cut_struct(src, "internal_ringbuffer_t")
    n_atomic = len(re.findall(r"std::atomic<off_t>\s+(write|read|read_lookahead)\s*;", st))
    weak = re.findall(r"memory_order_(relaxed|consume|acquire|release|acq_rel)", src)
    ok = n_atomic == 3 and not weak
    res = [{"name": "C06.atomics.seq_cst", "ok": ok,
            "detail": "std::atomic<off_t> index members: %d of 3; weaker memory orders named: %s" % (n_atomic, weak)}]
    # native deterministic schedules on the REAL thread-link.cpp: the other thread runs at every buffer copy
    # (harness/C06/schedule_replay.cpp); this is the executable demonstration behind the publication-order obligations
    import subprocess
    exe = os.path.join(ctx.scratch, "schedule_replay")
    cmd = ["g++", "-std=c++17", "-O1", "-g", '-DTHREAD_LINK_CPP="%s"' % os.path.join(ctx.repo, TL),
           "-I", os.path.join(ctx.repo, "include"), os.path.join(vlib.VERIF, "harness/C06/schedule_replay.cpp"),
           "-x", "c", os.path.join(ctx.repo, "src/rtosc.c"), "-o", exe]
    b = subprocess.run(cmd, stdout=subprocess.PIPE, stderr=subprocess.STDOUT, text=True)
    if b.returncode != 0:
        res.append({"name": "C06.schedule.copy_points", "ok": None, "detail": "native build failed: " + b.stdout[-600:]})
    else:
        try:
            r = subprocess.run([exe], stdout=subprocess.PIPE, stderr=subprocess.STDOUT, text=True, timeout=60)
            rc, out = r.returncode, r.stdout
        except subprocess.TimeoutExpired as e:
            rc, out = 1, "did not terminate within 60 s (a message was lost or the ring wedged)\n" + ((e.stdout or b"").decode("utf-8", "replace") if isinstance(e.stdout, bytes) else (e.stdout or ""))
        res.append({"name": "C06.schedule.copy_points", "ok": rc == 0, "reproduced": rc != 0,
                    "detail": "native run of the real thread-link.cpp with the other thread scheduled at every buffer copy: " + out[-700:]})
    return res


def obligations(ctx):
    H = "harness/C06/ring.c"
    common = dict(mode="proof", timeout=1200, mem_gb=12)
    obls = []
    def ob(name, entry, enforce, replace=(), defs=None, cb=(), **kw):
        d = dict(common); d.update(kw)
        obls.append(Obl("C06." + name, "C06", H, entry=entry, enforce=enforce, replace=list(replace),
                        defines=defs or {}, cbmc=list(cb), functions=[enforce] if enforce else [], **d))
    big = {"RING_SMAX": "(1UL<<30)"}
    ob("ring_read_size.contract", "h_ring_read_size", "ring_read_size", defs=big)
    ob("ring_write_size.contract", "h_ring_write_size", "ring_write_size", defs=big)
    ob("ring_read_vector.contract", "h_ring_read_vector", "ring_read_vector", replace=["ring_read_size"], defs=big)
    ob("ring_write.index_frame_order", "h_ring_write", "ring_write", replace=["memcpy"], defs=dict(big, MEMCPY_CONTRACT=None, ORDER_GHOSTS=None))
    ob("ring_read.index_frame_order", "h_ring_read", "ring_read", replace=["memcpy"], defs=dict(big, MEMCPY_CONTRACT=None, ORDER_GHOSTS=None))
    ob("lemma.reader_progress", "h_lemma_reader_progress", None, defs=big)
    ob("lemma.writer_progress", "h_lemma_writer_progress", None, defs=big)
    ob("lemma.disjoint", "h_lemma_disjoint", None, defs=big)
    smax = "16" if ctx.tier == "quick" else "256"
    small = {"RING_SMAX": smax, "CONTENT": None, "ORDER_GHOSTS": None}
    bnd = "ring size <= %s (content clauses use CBMC's built-in memcpy)" % smax
    ob("ring_write.content", "h_ring_write", "ring_write", defs=small, mode="bounded", bound=bnd)
    ob("ring_read.content", "h_ring_read", "ring_read", defs=small, mode="bounded", bound=bnd)
    # the same contracts + order assertions on small rings with an unwinding bound: decides variants of the code that
    # contain loops (a chunked copy loop has no loop contract, so the unbounded obligations above cannot finish on it)
    tiny = {"RING_SMAX": "8", "CONTENT": None, "ORDER_GHOSTS": None}
    ob("ring_write.order_small", "h_ring_write", "ring_write", defs=tiny, mode="bounded", bound="ring size <= 8, loops unwound 10 times",
       cb=["--unwind", "10", "--unwinding-assertions"], timeout=900)
    ob("ring_read.order_small", "h_ring_read", "ring_read", defs=tiny, mode="bounded", bound="ring size <= 8, loops unwound 10 times",
       cb=["--unwind", "10", "--unwinding-assertions"], timeout=900)
    tl = {"RING_SMAX": "(1UL<<30)", "THREADLINK": None}
    ob("ThreadLink_hasNext.contract", "h_tl_hasNext", "ThreadLink_hasNext", replace=["ring_read_size"], defs=tl)
    ob("ThreadLink_raw_write.contract", "h_tl_raw_write", "ThreadLink_raw_write",
       replace=["ring_write_size", "ring_write", "rtosc_message_length"], defs=tl)
    ob("ThreadLink_writeArray.contract", "h_tl_writeArray", "ThreadLink_writeArray",
       replace=["ring_write_size", "ring_write", "rtosc_amessage"], defs=tl)
    ob("ThreadLink_write.contract", "h_tl_write", "ThreadLink_write",
       replace=["ring_write_size", "ring_write", "rtosc_vmessage"], defs=tl)
    ob("ThreadLink_read.contract", "h_tl_read", "ThreadLink_read",
       replace=["ring_read_vector", "ring_read", "rtosc_message_ring_length"], defs=tl)
    # interference: the other thread moves ITS index (within its contract) at every point where this side loads it
    IH = "harness/C06/interference.c"
    for e in ("h_obs_read_vector", "h_obs_read_size", "h_obs_write_size"):
        obls.append(Obl("C06.interference.%s" % e[6:], "C06", IH, entry=e, defines=big, mode="proof", timeout=1500, mem_gb=12,
                        functions=["ring_" + e[6:]], replayable=False,
                        note="loop-free, all ring sizes 2..2^30, all index values, arbitrary progress of the other side at each load"))
    obls.append(Obl("C06.canary.interference", "C06", IH, entry="h_obs_read_vector", defines={"RING_SMAX": "16"}, mode="proof",
                    timeout=900, canary=True))
    # bounded, replayable: all short sequential histories on small rings against a reference FIFO
    hk, hs = ("4", "8")      # 5 operations did not finish in 60 min; both tiers explore all histories of 4 operations
    obls.append(Obl("C06.history.sequential", "C06", "harness/C06/history.c", entry="h_history", defines={"HK": hk, "HS": hs},
                    mode="bounded", bound="all histories of %s ring operations (write/read/lookahead read, 0..8 bytes each) on ring sizes 2..%s from every start index" % (hk, hs),
                    cbmc=["--unwind", "10", "--unwinding-assertions"], timeout=2400, mem_gb=12,
                    functions=["ring_write", "ring_read", "ring_read_size", "ring_write_size"]))
    obls.append(Obl("C06.canary.history", "C06", "harness/C06/history.c", entry="h_history", defines={"HK": "3", "HS": "4"},
                    mode="bounded", bound="canary", cbmc=["--unwind", "10"], timeout=900, canary=True))
    # vacuity guards: the preconditions are satisfiable and the interesting regions are reachable
    cs = {"RING_SMAX": "8", "ORDER_GHOSTS": None}
    ob("canary.ring_write", "h_ring_write", "ring_write", defs=cs, canary=True)
    ob("canary.ring_read", "h_ring_read", "ring_read", defs=cs, canary=True)
    ct = {"RING_SMAX": "8", "THREADLINK": None}
    ob("canary.ThreadLink_raw_write", "h_tl_raw_write", "ThreadLink_raw_write",
       replace=["ring_write_size", "ring_write", "rtosc_message_length"], defs=ct, canary=True)
    ob("canary.ThreadLink_read", "h_tl_read", "ThreadLink_read",
       replace=["ring_read_vector", "ring_read", "rtosc_message_ring_length"], defs=ct, canary=True)
    return obls
