"""C07 - Validation of untrusted bytes is sound."""
import os
import vlib
from vlib import Obl

LEVEL = "proof"
FUNCTIONS = ["deref", "bundle_ring_length", "rtosc_message_ring_length", "rtosc_message_length",
             "rtosc_valid_message_p", "rtosc_argument_string", "rtosc_narguments", "rtosc_type",
             "rtosc_argument", "rtosc_itr_begin", "rtosc_itr_next", "rtosc_itr_end"]
TRUSTED = ["CBMC 6.11.0 (goto-cc, goto-instrument --dfcc, cbmc; built-in SAT back end)",
           "CBMC's model of isprint (glibc table macros disabled with -D__NO_CTYPE)",
           "x86-64 LP64 bit-vector semantics; shipped flags -DNDEBUG (asserts compiled out)"]
ASSUMPTIONS = [
    "proof obligations: buffer length n <= 2^24 per ring segment (32-bit position arithmetic of the code is then exact)",
    "termination of the argument loop `while(toparse)` in rtosc_message_ring_length is NOT proved unboundedly "
    "(needs a counting invariant CBMC loop contracts cannot state); it is covered by the bounded obligations (unwinding assertions)",
    "bounded obligations are exhaustive for every buffer of the stated length and say nothing beyond it",
    "reference decoder gives unknown tag characters no payload and ignores padding content",
]
RULE = ("proof obligations: one per function under contract (all inputs, loops under loop contracts); bounded obligations: "
        "one per buffer length n, all 2^(8n) buffers symbolic at once, exact-size heap object; non-trivial = generated >0 cbmc properties")
EXPLANATION = ("Sentence 1 (reads inside n, result 0 or <= n, termination of all loops but one) is decided by enforced function "
               "and loop contracts for every n <= 2^24; sentence 2 (accepted => accessors in bounds and equal to the reference "
               "decoder) is decided exhaustively for every buffer up to the stated length (bounded, listed separately).")

LOOPS = ["rtosc_validate.loops"]


def prepare(ctx):
    vlib.prepare_injected(ctx, LOOPS, ["src/rtosc.c"])


def obligations(ctx):
    inj = '"%s"' % os.path.join(ctx.inj, "inj_rtosc.c")
    raw = '"%s"' % os.path.join(ctx.repo, "src/rtosc.c")
    P = "harness/C07/proof.c"
    obls = [
        Obl("C07.deref.contract", "C07", P, entry="h_deref", enforce="deref", defines={"RTOSC_C": inj},
            functions=["deref"]),
        Obl("C07.bundle_ring_length.contract", "C07", P, entry="h_bundle_ring_length", enforce="bundle_ring_length",
            replace=["deref"], loops=True, defines={"RTOSC_C": inj}, termination=True, functions=["bundle_ring_length"]),
        # deref is inlined here (its own contract is proved above): replacing its ~40 calls by the contract costs 2.5x the
        # solver time for the same facts; bundle_ring_length is replaced by its contract
        Obl("C07.rtosc_message_ring_length.contract", "C07", P, entry="h_message_ring_length",
            enforce="rtosc_message_ring_length", replace=["bundle_ring_length"], loops=True,
            defines={"RTOSC_C": inj}, termination=True, functions=["rtosc_message_ring_length"], timeout=2400),
        Obl("C07.rtosc_message_length.contract", "C07", P, entry="h_message_length", enforce="rtosc_message_length",
            replace=["rtosc_message_ring_length"], defines={"RTOSC_C": inj}, functions=["rtosc_message_length"]),
        Obl("C07.rtosc_valid_message_p.contract", "C07", P, entry="h_valid_message_p", enforce="rtosc_valid_message_p",
            replace=["rtosc_message_length"], loops=True, defines={"RTOSC_C": inj}, termination=True,
            functions=["rtosc_valid_message_p"]),
    ]
    nmax = 12 if ctx.tier == "quick" else 18      # n = 20 did not finish in 75 min
    for n in range(0, nmax + 1):
        obls.append(Obl("C07.accept_decodable.n%02d" % n, "C07", "harness/C07/accept_decodable.c",
                        entry="h_accept_decodable", defines={"RTOSC_C": raw, "N": str(n)}, mode="bounded",
                        bound="every buffer of exactly %d bytes" % n, termination=True,
                        cbmc=["--unwind", str(max(n + 4, 7)), "--unwinding-assertions"], timeout=3000, mem_gb=12,
                        case={"n": n}))
    # structured family: fixed "/a" + tag string (all tag strings of length 1..2 over class
    # representatives), followed by a fully symbolic payload region of 8 / 12 bytes
    import itertools
    reps = "sbihT"
    # (tag strings of length 3 are NOT used: with three nested symbolic string scans CBMC 6.11 reports the unwinding
    #  assertion of the inner scan loop as failed on inputs on which the real code terminates at once - a spurious
    #  failure, see DESIGN section 12 - and an unwinding failure is property-level for C07)
    maxlen = 2
    pay = 8 if ctx.tier == "quick" else 12
    tagsets = ["".join(t) for ln in range(1, maxlen + 1) for t in itertools.product(reps, repeat=ln)]
    tagsets = [t for t in tagsets if any(c in "sb" for c in t)]
    tagsets += ["i[ii]", "s[ib]", "[b]i", "[i]h[T]s"]          # array brackets in the middle: index <-> payload bookkeeping of arg_off/rtosc_type
    for tags in tagsets:
        if True:
            pre = [0x2f, 0x61, 0, 0, 0x2c] + [ord(t) for t in tags]
            pre += [0] * (4 - len(pre) % 4)
            n = len(pre) + (pay if any(t in "sb" for t in tags) else 0) + 4 * sum(1 for t in tags if t == "i") + 8 * sum(1 for t in tags if t == "h")
            obls.append(Obl("C07.accept_structured.%s.n%02d" % (tags, n), "C07", "harness/C07/accept_decodable.c",
                            entry="h_accept_decodable",
                            defines={"RTOSC_C": raw, "N": str(n), "PREFIX_BYTES": ",".join(str(x) for x in pre)}, mode="bounded",
                            bound="address '/a' and tag string '%s' fixed, every content of the remaining %d bytes" % (tags, n - len(pre)),
                            termination=True, cbmc=["--unwind", str(n + 4), "--unwinding-assertions"], timeout=1500, mem_gb=12,
                            case={"tags": tags, "n": n}))
    obls.append(Obl("C07.canary.accept_decodable.n08", "C07", "harness/C07/accept_decodable.c", entry="h_accept_decodable",
                    defines={"RTOSC_C": raw, "N": "8"}, mode="bounded", bound="n=8", cbmc=["--unwind", "12"], canary=True, timeout=600))
    return obls
