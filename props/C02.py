"""C02 - Fixed-buffer discipline: never write past the caller's buffer, fail closed."""
import os
import vlib, shapes
from vlib import Obl
from props import C01, C08

LEVEL = "model_checking"
FUNCTIONS = ["rtosc_amessage", "vsosc_null", "rtosc_message", "rtosc_vmessage", "rtosc_bundle"]
TRUSTED = C01.TRUSTED
ASSUMPTIONS = [
    "bounded by shape (see C01/C08): tag string and string/blob lengths fixed per obligation; inside a shape the capacity is SYMBOLIC in "
    "[0, need+8] and the destination is an exact-size heap object of that many bytes, so any write outside is a CBMC pointer failure",
    "callers that pass a literal capacity next to a fixed array (RtData::reply/broadcast: 8192) are a syntactic supporting fact, not a proof",
]
RULE = "one obligation per message shape / bundle element sequence, crossing every capacity 0..need+8 inside the solver"
EXPLANATION = ("Bounded, exhaustive per shape over all capacities: no write outside [buffer,buffer+len); does not fit => returns 0 and the "
               "buffer is zero-filled; fits => exact size; NULL buffer => the size needed.")


def prepare(ctx):
    pass


def obligations(ctx):
    sl = shapes.enumerate_shapes(ctx.tier, ctx.seed)
    if ctx.tier == "quick":
        sl = [s for i, s in enumerate(sl) if i % 2 == 0 or s.nulls or s.symstr]
    obls = C01.shape_obligations(ctx, "C02", "PROP_C02", sl)
    obls += C08.bundle_obligations(ctx, "C02", "PROP_C02", ctx.tier)
    obls += C08.bundle_cap_obligations(ctx, "C02", "PROP_C02", ctx.tier)
    return obls
