"""C02 - Fixed-buffer discipline: never write past the caller's buffer, fail closed."""
import os
import vlib, shapes
from vlib import Obl
from props import C01, C08

LEVEL = "model_checking"
FUNCTIONS = ["rtosc_amessage", "vsosc_null", "rtosc_message", "rtosc_vmessage", "rtosc_bundle"]
TRUSTED = C01.TRUSTED
ASSUMPTIONS = [
    "bounded by shape (see C01/C08): tag string and string/blob lengths fixed per obligation; inside a shape the capacity is SYMBOLIC in "
    "[0, need+8] and the destination is an exact-size heap object of that many bytes, so any write outside is a CBMC pointer failure",
    "callers that pass a literal capacity next to a fixed array (RtData::reply/broadcast: 8192) are a syntactic supporting fact, not a proof",
]
RULE = "one obligation per message shape / bundle element sequence, crossing every capacity 0..need+8 inside the solver"
EXPLANATION = ("Bounded, exhaustive per shape over all capacities: no write outside [buffer,buffer+len); does not fit => returns 0 and the "
               "buffer is zero-filled; fits => exact size; NULL buffer => the size needed.")


def prepare(ctx):
    pass


def static_checks(ctx):
    """Supporting static fact (not a proof): every call of a message constructor in src/cpp that passes a LITERAL capacity next
    to a locally declared `char buf[M]` passes a capacity <= M. By rtosc_amessage's contract (C02 obligations) such a caller
    cannot be written past its buffer."""
    import re, glob
    from inject_loops import blank_noncode
    sites, bad = [], []
    for f in sorted(glob.glob(os.path.join(ctx.repo, "src/cpp/*.cpp"))):
        src = open(f).read(); code = blank_noncode(src)
        for m in re.finditer(r"\brtosc_[av]?message\s*\(\s*([A-Za-z_]\w*)\s*,\s*(\d+)\s*,", code):
            buf, cap = m.group(1), int(m.group(2))
            decl = None
            for d in re.finditer(r"\bchar\s+%s\s*\[\s*(\d+)\s*\]" % re.escape(buf), code[:m.start()]):
                decl = int(d.group(1))
            line = code.count("\n", 0, m.start()) + 1
            sites.append((os.path.basename(f), line, buf, cap, decl))
            if decl is not None and cap > decl:
                bad.append("%s:%d passes capacity %d for char %s[%d]" % (os.path.basename(f), line, cap, buf, decl))
    reply = [x for x in sites if x[0] == "ports.cpp" and x[3] == 8192 and x[4] == 8192]
    res = [{"name": "C02.callers.literal_capacity", "ok": not bad,
            "detail": "%d call sites with a literal capacity, %d with a local array declaration checked; offenders: %s" %
                      (len(sites), sum(1 for x in sites if x[4] is not None), bad or "none")}]
    if len(reply) < 2 and not bad:
        ctx.notes.append("C02.callers: RtData::reply/broadcast no longer match the `char buffer[8192]` + literal 8192 shape (supporting fact not established)")
    return res


def obligations(ctx):
    sl = shapes.enumerate_shapes(ctx.tier, ctx.seed)
    if ctx.tier != "quick":
        vlib.JOBS = min(vlib.JOBS, 4)     # memory: see props/C01.py
    if ctx.tier == "quick":
        sl = [s for i, s in enumerate(sl) if i % 2 == 0 or s.nulls or s.symstr]
    obls = C01.shape_obligations(ctx, "C02", "PROP_C02", sl)
    obls += C08.bundle_obligations(ctx, "C02", "PROP_C02", ctx.tier)
    obls += C08.bundle_cap_obligations(ctx, "C02", "PROP_C02", ctx.tier)
    return obls
