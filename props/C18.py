"""C18 - Path utilities (only the collapsePath sentence is in reach; apropos / path_search are STL + lambda code: NOT covered)."""
import os, re
import vlib, extract, inject_loops
from vlib import Obl

LEVEL = "model_checking"
FUNCTIONS = ["parent_path_p", "read_path", "move_path", "Ports::collapsePath"]
TRUSTED = ["CBMC 6.11.0 (goto-cc, goto-instrument --dfcc, cbmc; built-in SAT back end)",
           "extraction rules of props/C18.py on src/cpp/ports.cpp as listed in infrastructure_notes (ref-param, static-method, call-site)",
           "spec/path_spec.h (component-stack specification written from the property statement)",
           "x86-64 LP64 bit-vector semantics; -DNDEBUG as shipped"]
ASSUMPTIONS = [
    "ONLY sentence 1 of the property (collapsePath) is decided; Ports::apropos / operator[] (sentence 2) and path_search (sentence 3) are "
    "std::vector/std::function/lambda/std::sort code outside CBMC's reach and are NOT covered - a defect there stays undetected by this check",
    "input domain: NUL-terminated ABSOLUTE path (first byte '/'); bounded functional obligations additionally: no empty component "
    "(no '//' and no trailing '/'), bytes over {'/','.','a','b'}",
    "spec interpretation: a path whose components all cancel renders as the empty string (concatenation of zero '/name' pieces)",
    "collapsePath forms the pointer p-1 (one before the string). CBMC cannot represent a pointer before its object, so every harness "
    "hands the function base+1 of a larger object and checks that base[0] is never written; the formal UB of p-1 when p is the first "
    "byte of an object is a supporting fact, not decided here",
    "proof obligations: path length <= 2^16 bytes; `consuming` (int) cannot overflow inside that bound",
    "proof obligations decide memory safety, frame, result position and termination; the functional clause (result == spec) is bounded "
    "(CBMC loop invariants cannot carry the recursive component-stack spec)",
]
RULE = ("proof: one obligation per function under contract (helpers replaced by their contracts in the caller); bounded: one obligation "
        "per path length n, all strings of that length over the alphabet symbolic at once; non-trivial when >0 cbmc properties")
EXPLANATION = ("collapsePath and its three helpers are cut out of ports.cpp on every run (must-fire rules), safety/frame/termination are "
               "proved by function+loop contracts for any path length <= 2^16, and the result is compared with spec_collapse for every "
               "absolute path up to the stated length.")

SRC = "src/cpp/ports.cpp"
EXT = "C18_collapse.inc"


def extract_collapse(ctx):
    src = extract.read(ctx.repo, SRC)
    log = ctx.notes
    out = ["/* extracted from %s on this run by props/C18.py - do not edit */" % SRC]
    # parent_path_p is C as it stands
    t = extract.cut_function(src, "parent_path_p")
    t = extract.apply_rules(t, [("verbatim", r"^static bool parent_path_p\(char \*read, char \*start\)", lambda m: m.group(0), 1)],
                            log, "parent_path_p")
    out.append(t)
    # read_path(char *&r, char *start)
    t = extract.cut_function(src, "read_path")
    t = extract.apply_rules(t, [
        ("ref-param", r"^static void read_path\(char \*&r, char \*start\)", "static void read_path(char **r__p, char *start)", 1),
        ("ref-use", r"(?<![A-Za-z0-9_])r(?![A-Za-z0-9_])", "(*r__p)", None),   # any number of uses >= 1
    ], log, "read_path")
    out.append(t)
    # move_path(char *&r, char *&w, char *start)
    t = extract.cut_function(src, "move_path")
    t = extract.apply_rules(t, [
        ("ref-param", r"^static void move_path\(char \*&r, char \*&w, char \*start\)",
         "static void move_path(char **r__p, char **w__p, char *start)", 1),
        ("ref-use", r"(?<![A-Za-z0-9_])r(?![A-Za-z0-9_])", "(*r__p)", None),   # any number of uses >= 1: not a shape property
        ("ref-use", r"(?<![A-Za-z0-9_])w(?![A-Za-z0-9_])", "(*w__p)", None),
    ], log, "move_path")
    out.append(t)
    # char *Ports::collapsePath(char *p)   (static member: no `this`)
    t = extract.cut_function(src, "collapsePath", qualifier="Ports")
    t = extract.apply_rules(t, [
        ("method-static", r"^char \*Ports::collapsePath\(char \*p\)", "char *Ports_collapsePath(char *p)", 1),
        ("ref-call", r"(?<![A-Za-z0-9_])read_path\(read_pos, p\)", "read_path(&read_pos, p)", None),
        ("ref-call", r"(?<![A-Za-z0-9_])move_path\(read_pos, write_pos, p\)", "move_path(&read_pos, &write_pos, p)", None),
    ], log, "Ports::collapsePath")
    out.append(t)
    # the header must declare it static (otherwise a `this` would exist)
    hdr = extract.read(ctx.repo, "include/rtosc/ports.h")
    extract.apply_rules(hdr, [("method-static", r"static char \*collapsePath\(char \*p\);", lambda m: m.group(0), 1)], log, "ports.h")
    text = "\n\n".join(out) + "\n"
    extract.write(ctx, EXT, text)
    return text


def prepare(ctx):
    extract_collapse(ctx)
    specs = inject_loops.parse_loops_file(os.path.join(vlib.VERIF, "contracts", "collapse.loops"))
    try:
        inject_loops.inject(ctx.ext, specs, EXT, os.path.join(ctx.ext, "inj_" + EXT), ctx.notes)
    except inject_loops.InjectError as e:
        # only the proof obligations that need the injected file become undecided; the bounded family runs on the raw file
        ctx.infra_errors.append("loop-contract injection into %s failed: %s" % (EXT, e))


def obligations(ctx):
    ext = '"%s"' % os.path.join(ctx.ext, EXT)
    inj = '"%s"' % os.path.join(ctx.ext, "inj_" + EXT)
    P = "harness/C18/proof.c"
    B = "harness/C18/collapse_bounded.c"
    # dfcc write-set bookkeeping is indexed by object id: small --object-bits and no field-sensitive expansion keep it cheap
    pf = dict(mode="proof", defines={"COLLAPSE_INC": inj}, loops=True, termination=True, instr=["--no-malloc-may-fail"],
              cbmc=["--object-bits", "8", "--max-field-sensitivity-array-size", "64"], timeout=1200, mem_gb=12)
    pf6 = dict(pf, cbmc=["--object-bits", "6", "--max-field-sensitivity-array-size", "64"])
    obls = [
        Obl("C18.parent_path_p.contract", "C18", P, entry="h_parent_path_p", enforce="parent_path_p", functions=["parent_path_p"], **pf6),
        Obl("C18.read_path.contract", "C18", P, entry="h_read_path", enforce="read_path", functions=["read_path"], **pf6),
        Obl("C18.move_path.contract", "C18", P, entry="h_move_path", enforce="move_path", functions=["move_path"], **pf6),
        Obl("C18.collapsePath.inplace_safety", "C18", P, entry="h_collapsePath", enforce="Ports_collapsePath",
            replace=["parent_path_p", "read_path", "move_path"], functions=["Ports::collapsePath"], **pf),
        Obl("C18.collapsePath.inplace_safety.canary", "C18", P, entry="h_collapsePath", enforce="Ports_collapsePath",
            replace=["parent_path_p", "read_path", "move_path"], canary=True, **pf),
    ]
    quick = ctx.tier == "quick"
    nmax = 12 if quick else 16
    for n in range(2, nmax + 1):
        obls.append(Obl("C18.collapse_eq_spec.n%02d" % n, "C18", B, entry="h_collapse", defines={"COLLAPSE_INC": ext, "N": str(n)},
                        mode="bounded", bound="every absolute path of exactly %d bytes over {'/','.','a','b'} without empty components" % n,
                        cbmc=["--unwind", str(n + 3), "--unwinding-assertions"], timeout=(2400 if quick else 7200), mem_gb=12, termination=True,
                        case={"n": n}))
    # empty components ('//' and trailing '/') as ordinary components: smaller bound, outside the stated input domain but cheap to include
    emax = 8 if quick else 11
    for n in range(1, emax + 1):
        obls.append(Obl("C18.collapse_eq_spec.empty_ok.n%02d" % n, "C18", B, entry="h_collapse",
                        defines={"COLLAPSE_INC": ext, "N": str(n), "ALLOW_EMPTY": None}, mode="bounded",
                        bound="every absolute path of exactly %d bytes over {'/','.','a','b'}, empty components allowed (ordinary)" % n,
                        cbmc=["--unwind", str(n + 3), "--unwinding-assertions"], timeout=(2400 if quick else 7200), mem_gb=12, termination=True,
                        case={"n": n, "empty_components": True}))
    # the property's own quantifier: 1..8 components, '..' at every position (2-byte components, '/' positions fixed)
    kmax = 5 if quick else 8
    for k in range(1, kmax + 1):
        obls.append(Obl("C18.collapse_eq_spec.components%d" % k, "C18", B, entry="h_collapse", defines={"COLLAPSE_INC": ext, "KCOMP": str(k)},
                        mode="bounded", bound="every path of exactly %d two-byte components over {'.','a','b'} ('..' or ordinary at every position)" % k,
                        cbmc=["--unwind", str(3 * k + 3), "--unwinding-assertions"], timeout=(2400 if quick else 7200), mem_gb=16, termination=True,
                        case={"components": k}))
    obls.append(Obl("C18.collapse_eq_spec.canary", "C18", B, entry="h_collapse", defines={"COLLAPSE_INC": ext, "N": "6"},
                    mode="bounded", bound="n=6", cbmc=["--unwind", "9", "--unwinding-assertions"], canary=True))
    return obls
