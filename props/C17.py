"""C17 - Port metadata is read back exactly as written."""
import os, re, subprocess, itertools
import vlib, extract, inject_loops
from vlib import Obl

LEVEL = "model_checking"
FUNCTIONS = ["metaiterator_advance", "Port::MetaIterator::MetaIterator", "Port::MetaIterator::operator++", "Port::MetaIterator::operator bool",
             "Port::MetaContainer::MetaContainer", "Port::MetaContainer::begin", "Port::MetaContainer::end", "Port::MetaContainer::find",
             "Port::MetaContainer::length", "Port::MetaContainer::operator[]", "Port::meta"]
TRUSTED = ["CBMC 6.11.0 (goto-cc, goto-instrument --dfcc, cbmc; built-in SAT back end), CBMC's strcmp model",
           "cvc5 (SMT back end of the four quantified proof obligations C17.*.exact*, reported under static_facts)",
           "extraction rules of props/C17.py on src/cpp/ports.cpp and include/rtosc/ports.h as listed in infrastructure_notes "
           "(ref-param, method, ctor-init, this-ret, range-for, temp-ctor, struct-lift, ns) and the three-line glue MetaIterator_make/"
           "MetaContainer_make that models construction of a C++ temporary",
           "spec/meta_spec.h (ghost view of a metadata block, written from the property statement)",
           "g++ (host compiler) for expanding the real rMap/rProp/rDoc/rOptions macros of include/rtosc/port-sugar.h into bytes",
           "x86-64 LP64 bit-vector semantics; -DNDEBUG as shipped"]
ASSUMPTIONS = [
    "well-formed block (wf_block, spec/meta_spec.h): 1..k entries ':' key NUL [ '=' value NUL ], then one NUL; keys are non-empty, contain no "
    "NUL and do NOT START with ':' (a key may contain ':' after its first byte and '=' anywhere); values contain no NUL and are otherwise "
    "arbitrary (':' and '=' anywhere, empty allowed). A key that starts with ':' is outside the checked domain: the reader splits such an "
    "entry (witness findings/c17_colon_key_witness.cpp; set VERIF_C17_COLON_KEY=1 to add the failing obligation) - reported, not decided",
    "the metadata is read through Port::meta() (which strips the leading ':') as the statement says; the obligations "
    "C17.unstripped_container.* repeat everything for a container built from the metadata pointer itself (MetaContainer(p.metadata), as "
    "rtosc::path_search and port-checker.cpp do)",
    "bounded obligations: the SHAPE (entry count 1..4, key lengths 1..3, value lengths 0..3 or no value) is fixed per obligation and "
    "enumerated by props/C17.py (quick: all 1-entry shapes, 2 entries with value lengths {none,0,1,3}, 3 entries every none/empty/non-empty "
    "order, 4 entries every with/without-value order; thorough: more lengths); the BYTES of keys and values and the looked-up key (length "
    "1..3) are symbolic over {'a','b',':','=',' ','1'}",
    "inside MetaContainer::find / operator[] the calls of operator++ are replaced by its contract over the ghost view (entry j -> entry j+1, "
    "contracts/meta.h, applied by a macro between the two extracted files); the same step is asserted of the real operator++ for every j "
    "in the same run, and C17.shape_lookup_real.* re-run small shapes without the replacement. In the iteration part the iterator is "
    "re-assigned the pointer values just asserted equal (cut), which keeps pointers concrete and changes nothing when the assertions hold",
    "proof obligations (block length <= 2^16), two contract sets on one entry of a well-formed block described by ghost offsets: (a) "
    "quantifier-free, SAT back end: memory safety, frame, termination, result ranges, and `the scan does not stop at the arbitrary ghost "
    "offset M_G` (generalising over M_G is a paper step); (b) quantified (`no NUL inside key and value` as __CPROVER_forall), SMT back "
    "end cvc5, run by static_checks(): operator++ lands EXACTLY on the next entry's key/value or the null iterator, length() == block "
    "length. cvc5 is trusted for (b); its `unknown` answers are reported as undecided. The requires of (b) are shown satisfiable on one "
    "concrete example block (C17.forall_requires.example); the canaries run on set (a)",
    "blocks of 5..8 entries (the property's quantifier goes to 8) are only sampled (quick: one shape of 6 and one of 8 entries; thorough: 12 shapes); "
    "the per-entry proof obligations are what carries beyond 4",
    "literal check: g++ on the host expands the real macros (sizeof and bytes of the string literal); rOptions is checked for 2 options",
]
RULE = ("proof: one obligation per function under contract (loops under loop contracts, callee replaced by contract); bounded: one obligation "
        "per block shape, bytes symbolic; literal: one obligation on the bytes the real macros produce; non-trivial when >0 cbmc properties")
EXPLANATION = ("The metadata scanner is cut out of ports.cpp/ports.h on every run (must-fire rules). Scan safety and landing are proved for "
               "any block length by function+loop contracts; iteration order, operator[], find and length are compared with the ghost view "
               "of the block for every enumerated shape with symbolic bytes; the byte strings of the real macros are checked to be well "
               "formed and to decode to the pairs the macros name.")

SRC = "src/cpp/ports.cpp"
HDR = "include/rtosc/ports.h"
SUGAR = "include/rtosc/port-sugar.h"
EXT = "C17_meta_iter.inc"      # metaiterator_advance + Port::MetaIterator methods
EXT2 = "C17_meta_cont.inc"     # Port::MetaContainer methods + Port::meta (separate file so that a harness can put a callee contract between them)
TYPES = "C17_meta_types.inc"
ID = r"(?<![A-Za-z0-9_])%s(?![A-Za-z0-9_])"


def _members(cls_text, where, log):
    """struct-lift: the `const char *x;` data-member lines of a class, in declaration order."""
    names = re.findall(r"^\s*const\s+char\s*\*\s*(\w+)\s*;\s*(?://.*)?$", cls_text, re.M)
    log.append("extract rule struct-lift  in %-28s lifted members %s" % (where, names))
    return names


def extract_meta(ctx):
    src = extract.read(ctx.repo, SRC)
    hdr = extract.read(ctx.repo, HDR)
    log = ctx.notes
    R = extract.apply_rules
    keep = lambda m: m.group(0)
    out = ["/* extracted from %s and %s on this run by props/C17.py - do not edit */" % (SRC, HDR)]

    # ---------------- struct-lift: data members of Port::MetaIterator, Port::MetaContainer, Port
    port = extract.cut_struct(hdr, "Port", keyword="struct")
    it_cls = extract.cut_struct(port, "MetaIterator", keyword="class")
    co_cls = extract.cut_struct(port, "MetaContainer", keyword="class")
    if _members(it_cls, "class MetaIterator", log) != ["title", "value"]:
        raise extract.ExtractError("MetaIterator data members are not (title, value)")
    if _members(co_cls, "class MetaContainer", log) != ["str_ptr"]:
        raise extract.ExtractError("MetaContainer data members are not (str_ptr)")
    port_wo = port.replace(it_cls, "").replace(co_cls, "")
    pm = _members(port_wo, "struct Port", log)
    if pm[:2] != ["name", "metadata"]:
        raise extract.ExtractError("Port data members do not start with (name, metadata)")
    # the range-for desugaring below inlines these two in-class operators: their text must be exactly this
    R(it_cls, [("range-for", r"bool operator!=\(MetaIterator a\) \{return title != a\.title;\}", keep, 1),
               ("range-for", r"const MetaIterator& operator\*\(void\) const \{return \*this;\}", keep, 1)], log, "class MetaIterator (ports.h)")
    extract.write(ctx, TYPES, "/* struct-lift of the data members of Port::MetaIterator, Port::MetaContainer, Port (%s) - do not edit */\n"
                  "struct MetaIterator { const char *title; const char *value; };\n"
                  "struct MetaContainer { const char *str_ptr; };\n"
                  "struct Port { const char *name; const char *metadata; const void *ports; const void *cb; };\n" % HDR)

    # ---------------- free function with reference parameters
    t = extract.cut_function(src, "metaiterator_advance")
    t = R(t, [("ref-param", r"^void metaiterator_advance\(const char \*&title, const char \*&value\)",
               "void metaiterator_advance(const char **title__p, const char **value__p)", 1),
              ("ref-use", ID % "title", "(*title__p)", 4),
              ("ref-use", ID % "value", "(*value__p)", None)], log, "metaiterator_advance")
    out.append(t)

    # ---------------- Port::MetaIterator
    out.append("#define title (self->title)\n#define value (self->value)")
    # constructors carry a mem-initializer list between `)` and `{`: cut from the header to the first `}` at line start
    t = extract.cut_between(src, r"Port::MetaIterator::MetaIterator\(const char \*str\)", r"\n\}")
    t = R(t, [("method", r"^Port::MetaIterator::MetaIterator\(const char \*str\)", "void MetaIterator_ctor(struct MetaIterator *self, const char *str)", 1),
              # mem-initializers become assignments at the start of the body, in the order written (== declaration order, checked above)
              ("ctor-init", r"\n\s*:title\(str\), value\(NULL\)\s*\n\{", "\n{   title = (str); value = (NULL);", 1),
              ("ref-call", r"metaiterator_advance\(title, value\)", "metaiterator_advance(&title, &value)", 1)], log, "MetaIterator::MetaIterator")
    out.append(t)
    out.append("/* glue: a C++ temporary `MetaIterator(e)` */\n"
               "static struct MetaIterator MetaIterator_make(const char *s) { struct MetaIterator t; MetaIterator_ctor(&t, s); return t; }")
    t = extract.cut_function(src, "operator++", qualifier="Port::MetaIterator")
    t = R(t, [("method", r"^Port::MetaIterator& Port::MetaIterator::operator\+\+\(void\)", "void MetaIterator_inc(struct MetaIterator *self)", 1),
              ("this-ret", r"return \*this;", "return;", 2),
              ("ref-call", r"metaiterator_advance\(title, value\)", "metaiterator_advance(&title, &value)", 1)], log, "MetaIterator::operator++")
    out.append(t)
    t = extract.cut_between(src, r"Port::MetaIterator::operator bool\(void\) const", r"\n\}")   # no return type: cut to the first `}` at line start
    t = R(t, [("method", r"^Port::MetaIterator::operator bool\(void\) const", "bool MetaIterator_bool(const struct MetaIterator *self)", 1)],
          log, "MetaIterator::operator bool")
    out.append(t)
    out.append("#undef title\n#undef value")
    text = "\n\n".join(out) + "\n"
    extract.write(ctx, EXT, text)

    # ---------------- Port::MetaContainer
    out = ["/* extracted from %s and %s on this run by props/C17.py - do not edit */" % (SRC, HDR)]
    out.append("#define str_ptr (self->str_ptr)")
    t = extract.cut_between(src, r"Port::MetaContainer::MetaContainer\(const char \*str_\)", r"\n\{\}")
    t = R(t, [("method", r"^Port::MetaContainer::MetaContainer\(const char \*str_\)", "void MetaContainer_ctor(struct MetaContainer *self, const char *str_)", 1),
              ("ctor-init", r"\n\s*:str_ptr\(str_\)\s*\n\{\}", "\n{   str_ptr = (str_); }", 1)], log, "MetaContainer::MetaContainer")
    out.append(t)
    out.append("/* glue: a C++ temporary `MetaContainer(e)` */\n"
               "static struct MetaContainer MetaContainer_make(const char *s) { struct MetaContainer t; MetaContainer_ctor(&t, s); return t; }")
    t = extract.cut_function(src, "begin", qualifier="Port::MetaContainer")
    t = R(t, [("method", r"^Port::MetaIterator Port::MetaContainer::begin\(void\) const", "struct MetaIterator MetaContainer_begin(const struct MetaContainer *self)", 1),
              ("temp-ctor", r"return Port::MetaIterator\(", "return MetaIterator_make(", 2)], log, "MetaContainer::begin")
    out.append(t)
    t = extract.cut_function(src, "end", qualifier="Port::MetaContainer")
    t = R(t, [("method", r"^Port::MetaIterator Port::MetaContainer::end\(void\) const", "struct MetaIterator MetaContainer_end(const struct MetaContainer *self)", 1),
              ("temp-ctor", r"return MetaIterator\(", "return MetaIterator_make(", 1)], log, "MetaContainer::end")
    out.append(t)
    # `for(const auto x : *this)`: standard desugaring  { auto b = begin(), e = end(); for(; b != e; ++b) { const auto x = *b; ... } }
    # with operator* returning the iterator itself and operator!= comparing title (both checked above): x IS the iterator.
    rf = ("range-for", r"for\(const auto x : \*this\)",
          "for(struct MetaIterator x = MetaContainer_begin(self), x__end = MetaContainer_end(self); x.title != x__end.title; MetaIterator_inc(&x))", 1)
    t = extract.cut_function(src, "find", qualifier="Port::MetaContainer")
    t = R(t, [("method", r"^Port::MetaIterator Port::MetaContainer::find\(const char \*str\) const",
               "struct MetaIterator MetaContainer_find(const struct MetaContainer *self, const char *str)", 1), rf,
              ("temp-ctor", r"return NULL;", "return MetaIterator_make(NULL);", 1)], log, "MetaContainer::find")
    out.append(t)
    t = extract.cut_function(src, "length", qualifier="Port::MetaContainer")
    t = R(t, [("method", r"^size_t Port::MetaContainer::length\(void\) const", "size_t MetaContainer_length(const struct MetaContainer *self)", 1)],
          log, "MetaContainer::length")
    out.append(t)
    t = extract.cut_function(src, "operator[]", qualifier="Port::MetaContainer")
    t = R(t, [("method", r"^const char \*Port::MetaContainer::operator\[\]\(const char \*str\) const",
               "const char *MetaContainer_index(const struct MetaContainer *self, const char *str)", 1), rf], log, "MetaContainer::operator[]")
    out.append(t)
    out.append("#undef str_ptr")

    # ---------------- Port::meta() (defined in the class body in ports.h)
    t = extract.cut_function(port_wo, "meta")
    t = R(t, [("method", r"^MetaContainer meta\(void\) const", "struct MetaContainer Port_meta(const struct Port *self)", 1),
              ("temp-ctor", r"return MetaContainer\(", "return MetaContainer_make(", 2)], log, "Port::meta")
    out.append("#define metadata (self->metadata)\n" + t + "\n#undef metadata")
    text2 = "\n\n".join(out) + "\n"
    extract.write(ctx, EXT2, text2)
    return text + text2


# --------------------------------------------------------------------------- literal blocks from the real macros
LITERALS = [
    # (name, macro text, expected pairs (key, value or None))
    ("map_prop_doc_opts", 'rMap(a,b) rProp(c) rDoc("d") rOptions(x,y)',
     [("a", "b"), ("c", None), ("documentation", "d"), ("map 0", "x"), ("map 1", "y")]),
    ("value_with_colon_eq", 'rMap(min, 0) rMap(unit, a:b=c) rProp(parameter) rDoc("x=1: y")',
     [("min", "0"), ("unit", "a:b=c"), ("parameter", None), ("documentation", "x=1: y")]),
    ("prop_last", 'rDoc("") rProp(internal)', [("documentation", ""), ("internal", None)]),
    ("repeated_key", 'rMap(k, 1) rProp(k) rMap(k, 2)', [("k", "1"), ("k", None), ("k", "2")]),
    ("single_prop", 'rProp(p)', [("p", None)]),
]


def gen_literals(ctx):
    """Compile a tiny C++ program against the REAL port-sugar.h and let it print the macro-produced bytes as C arrays."""
    cpp = os.path.join(ctx.ext, "c17_lit_gen.cpp")
    exe = os.path.join(ctx.ext, "c17_lit_gen")
    lines = ['#include <cstdio>', '#include <rtosc/port-sugar.h>',
             'static void dump(const char *n, const char *s, unsigned long len) {',
             '  printf("static const unsigned char LIT_%s[%lu] = {", n, len);',
             '  for(unsigned long i = 0; i < len; i++) printf("%s%u", i ? "," : "", (unsigned)(unsigned char)s[i]);',
             '  printf("};\\n#define LIT_%s_LEN %lu\\n", n, len); }', 'int main() {']
    for name, mac, _ in LITERALS:
        lines.append('  { static const char b[] = %s; dump("%s", b, sizeof(b)); }' % (mac, name))
    lines.append('  return 0; }')
    with open(cpp, "w") as f:
        f.write("\n".join(lines) + "\n")
    p = subprocess.run(["g++", "-std=c++11", "-w", "-I", os.path.join(ctx.repo, "include"), cpp, "-o", exe],
                       stdout=subprocess.PIPE, stderr=subprocess.STDOUT, timeout=300)
    if p.returncode != 0:
        raise extract.ExtractError("literal generator does not compile against port-sugar.h: " + p.stdout.decode()[-800:])
    outp = subprocess.run([exe], stdout=subprocess.PIPE, timeout=60).stdout.decode()
    h = ["/* bytes produced by the real macros of %s on this run (g++ -> sizeof/bytes of the literal) */" % SUGAR, outp]
    # expected pairs, as the macros NAME them (written here from the macro arguments, not from the bytes)
    for name, mac, pairs in LITERALS:
        h.append("/* %s */" % mac)
        h.append("#define LIT_%s_K %d" % (name, len(pairs)))
        h.append("static const char *const LIT_%s_KEYS[] = {%s};" % (name, ", ".join('"%s"' % k for k, _ in pairs)))
        h.append("static const char *const LIT_%s_VALS[] = {%s};" % (name, ", ".join("0" if v is None else '"%s"' % v for _, v in pairs)))
    extract.write(ctx, "C17_literals.h", "\n".join(h) + "\n")
    os.remove(exe)
    ctx.notes.append("literal blocks: %d macro expressions expanded by g++ against the real port-sugar.h" % len(LITERALS))


def prepare(ctx):
    extract_meta(ctx)
    specs = inject_loops.parse_loops_file(os.path.join(vlib.VERIF, "contracts", "meta.loops"))
    for f in (EXT, EXT2):
        try:
            inject_loops.inject(ctx.ext, specs, f, os.path.join(ctx.ext, "inj_" + f), ctx.notes)
        except inject_loops.InjectError as e:
            # only the proof obligations that need the injected file become undecided; the bounded read-back
            # obligations run on the raw extracted file and can still decide the property (same rule as vlib.prepare_injected)
            ctx.infra_errors.append("loop-contract injection into %s failed: %s" % (f, e))
    gen_literals(ctx)


def enumerate_shapes(tier):
    """Block shapes: list of (klens, vlens); vlen -1 = entry without value, 0 = empty value."""
    P = itertools.product
    shapes = []
    def add(kls, vls):
        kls, vls = list(kls), list(vls)
        for kl in kls:
            for vl in vls:
                if len(kl) == len(vl) and (tuple(kl), tuple(vl)) not in shapes:
                    shapes.append((tuple(kl), tuple(vl)))
    V5 = (-1, 0, 1, 2, 3)
    add(P((1, 2, 3)), P(V5))                                             # 1 entry: every key length x every value length / none
    if tier == "quick":
        add(P((1, 2, 3), repeat=2), P((-1, 0, 1, 3), repeat=2))          # 2 entries
        add([(1, 1, 1), (2, 3, 2)], P((-1, 0, 2), repeat=3))             # 3 entries: every none/empty/non-empty order
        add([(1, 2, 1, 2)], P((-1, 1), repeat=4))                        # 4 entries: every with/without-value order
        add([(2, 2, 2, 2)], P((-1, 0), repeat=4))                        #            ... with empty values, equal key lengths (repeated keys)
        add([(1, 2, 1, 2, 1, 2)], [(-1, 1, -1, 1, -1, 1)])               # 6 and 8 entries: one alternating shape each
        add([(1, 1, 1, 1, 1, 1, 1, 1)], [(0, -1, 0, -1, 0, -1, 0, -1)])
    else:
        add(P((1, 2, 3), repeat=2), P(V5, repeat=2))
        add(P((1, 3), repeat=3), P((-1, 0, 1, 3), repeat=3))
        add([(2, 2, 2), (1, 2, 3)], P((-1, 0, 2), repeat=3))
        add([(1, 2, 1, 2), (2, 2, 2, 2), (3, 1, 3, 3), (1, 1, 1, 1)], P((-1, 0, 2), repeat=4))
        add([(3, 3, 3, 3)], P((-1, 3), repeat=4))
        # 5..8 entries (the property's quantifier goes to 8): alternating / all-with / all-without value, short keys
        for k in (5, 6, 8):
            add([tuple(1 + (i % 2) for i in range(k))], [tuple(-1 if i % 2 else 1 for i in range(k)), tuple(0 if i % 2 else -1 for i in range(k)),
                                                         (-1,) * k, (2,) * k])
    return shapes


def shape_key(kl, vl):
    return "k%d_%s_%s" % (len(kl), "".join(map(str, kl)), "".join("n" if v < 0 else str(v) for v in vl))


def _defs(ctx):
    q = lambda f: '"%s"' % os.path.join(ctx.ext, f)
    raw = {"META_TYPES": q(TYPES), "META_ITER_INC": q(EXT), "META_CONT_INC": q(EXT2)}
    inj = {"META_TYPES": q(TYPES), "META_ITER_INC": q("inj_" + EXT), "META_CONT_INC": q("inj_" + EXT2)}
    return raw, inj


def smt_obligations(ctx):
    """Quantified contract set (contracts/meta.h, C17_FORALL): `no NUL inside key and value` as __CPROVER_forall, back end cvc5:
    operator++ lands EXACTLY on the next entry, length() == block length, for any block length <= 2^16."""
    raw, inj = _defs(ctx)
    P = "harness/C17/proof.c"
    pq = dict(mode="proof", defines=dict(inj, C17_FORALL=None), loops=True, termination=True, instr=["--no-malloc-may-fail"],
              cbmc=["--object-bits", "8"], solver="--cvc5", timeout=1800, mem_gb=8)
    return [
        Obl("C17.metaiterator_advance.exact", "C17", P, entry="h_advance", enforce="metaiterator_advance", **pq),
        Obl("C17.MetaIterator_inc.exact_landing", "C17", P, entry="h_inc", enforce="MetaIterator_inc", replace=["metaiterator_advance"], **pq),
        Obl("C17.MetaContainer_length.exact", "C17", P, entry="h_length", enforce="MetaContainer_length", **pq),
        Obl("C17.begin_end_meta.exact", "C17", P, entry="h_begin_end", replace=["metaiterator_advance"], **pq),
    ]


def static_checks(ctx):
    """Runs the cvc5 obligations itself and reports them as static facts. Reason: an SMT solver may answer `unknown` (it does so
    whenever a quantified goal is NOT valid, e.g. on a mutant); cbmc then reports the properties with status ERROR, and
    vlib.run_obligation counts only FAILURE as failed - a plain Obl would be shown as `pass`. Here: every property SUCCESS => fact
    holds; any FAILURE => violation; anything else => undecided (exit 2)."""
    from concurrent.futures import ThreadPoolExecutor
    obls = smt_obligations(ctx)
    with ThreadPoolExecutor(max_workers=len(obls)) as ex:
        results = list(ex.map(lambda o: vlib.run_obligation(ctx, o), obls))
    facts = []
    for o, r in zip(obls, results):
        sts = {}
        for pr in getattr(r, "raw_results", None) or []:
            sts[pr.get("status")] = sts.get(pr.get("status"), 0) + 1
        other = {k: v for k, v in sts.items() if k not in ("SUCCESS", "FAILURE")}
        if r.status in ("error", "timeout") or other or not sts:
            ctx.infra_errors.append("%s: SMT back end gave no verdict (status %s, property statuses %s) %s"
                                    % (o.name, r.status, sts, r.detail.strip()[:200]))
            continue
        ok = not r.failed
        facts.append({"name": o.name, "ok": ok, "mode": "proof (cvc5, quantified requires)", "cbmc_properties": r.n_props,
                      "wall_s": round(r.wall, 1),
                      "detail": ("proved for every block length <= 2^16: %d cbmc properties, all SUCCESS" % r.n_props) if ok
                                else "FAILED: " + "; ".join("%s %s" % f for f in r.failed[:5])})
        ctx.notes.append("static fact %s: %s (%.1fs)" % (o.name, "proved" if ok else "FAILED", r.wall))
    return facts


def obligations(ctx):
    raw, inj = _defs(ctx)
    P = "harness/C17/proof.c"
    pf = dict(mode="proof", defines=inj, loops=True, termination=True, instr=["--no-malloc-may-fail"],
              cbmc=["--object-bits", "8", "--max-field-sensitivity-array-size", "64"], timeout=900, mem_gb=8)
    # quantifier-free set (SAT): safety, frame, termination, ranges, per-ghost-offset landing; carries the canaries
    obls = [
        Obl("C17.metaiterator_advance.contract", "C17", P, entry="h_advance", enforce="metaiterator_advance",
            functions=["metaiterator_advance"], **pf),
        Obl("C17.MetaIterator_inc.contract", "C17", P, entry="h_inc", enforce="MetaIterator_inc", replace=["metaiterator_advance"],
            functions=["Port::MetaIterator::operator++"], **pf),
        Obl("C17.MetaContainer_length.contract", "C17", P, entry="h_length", enforce="MetaContainer_length",
            functions=["Port::MetaContainer::length"], **pf),
        Obl("C17.begin_end_meta.loopfree", "C17", P, entry="h_begin_end", replace=["metaiterator_advance"],
            functions=["Port::MetaContainer::begin", "Port::MetaContainer::end", "Port::meta", "Port::MetaIterator::MetaIterator"], **pf),
        Obl("C17.MetaIterator_inc.contract.canary", "C17", P, entry="h_inc", enforce="MetaIterator_inc", replace=["metaiterator_advance"],
            canary=True, **pf),
        Obl("C17.metaiterator_advance.contract.canary", "C17", P, entry="h_advance", enforce="metaiterator_advance", canary=True, **pf),
        Obl("C17.MetaContainer_length.contract.canary", "C17", P, entry="h_length", enforce="MetaContainer_length", canary=True, **pf),
    ]
    # the quantified set (cvc5, exact landing) is run by static_checks() below, not as plain obligations: see there
    obls += [
        # non-vacuity of the quantified requires: they hold for a concrete example block (SAT back end expands constant-bound quantifiers)
        Obl("C17.forall_requires.example", "C17", P, entry="h_forall_example", defines=dict(raw, C17_FORALL=None), mode="bounded",
            bound="one concrete example block (satisfiability witness of the quantified requires clauses)",
            cbmc=["--unwind", "16", "--unwinding-assertions"], timeout=300),
    ]
    S = "harness/C17/shape.c"
    shapes = enumerate_shapes(ctx.tier)
    for kl, vl in shapes:
        blen = 1 + sum(1 + k + 1 + (v + 2 if v >= 0 else 0) for k, v in zip(kl, vl))
        d = dict(raw, K=str(len(kl)), KLEN=",".join(map(str, kl)), VLEN=",".join(map(str, vl)))
        obls.append(Obl("C17.shape." + shape_key(kl, vl), "C17", S, entry="h_shape", defines=d, mode="bounded",
                        bound="shape-bounded: %d entries, key lengths %s, value lengths %s (-1 = no value); bytes symbolic over {a,b,':','=',' ','1'}"
                              % (len(kl), list(kl), list(vl)),
                        cbmc=["--unwind", str(max(blen + 3, 10)), "--unwinding-assertions"], timeout=900, mem_gb=8, termination=True,
                        case={"klen": list(kl), "vlen": list(vl), "block_bytes": blen}))
    # cross-check without the callee contract inside find/operator[] (real operator++ everywhere): small shapes only (expensive)
    real = [((1,), (-1,)), ((2,), (1,)), ((3,), (3,)), ((1, 1), (-1, 0)), ((1, 2), (1, -1))]
    if ctx.tier != "quick":
        real += [((2, 2), (0, 2)), ((3, 3), (3, 3)), ((1, 1, 1), (-1, 0, -1))]
    for kl, vl in real:
        blen = 1 + sum(1 + k + 1 + (v + 2 if v >= 0 else 0) for k, v in zip(kl, vl))
        d = dict(raw, K=str(len(kl)), KLEN=",".join(map(str, kl)), VLEN=",".join(map(str, vl)), LOOKUP_REAL=None)
        obls.append(Obl("C17.shape_lookup_real." + shape_key(kl, vl), "C17", S, entry="h_shape", defines=d, mode="bounded",
                        bound="shape-bounded, real operator++ inside find/operator[]: key lengths %s, value lengths %s" % (list(kl), list(vl)),
                        cbmc=["--unwind", str(max(blen + 3, 10)), "--unwinding-assertions"], timeout=1500, mem_gb=10, termination=True,
                        case={"klen": list(kl), "vlen": list(vl), "lookup": "real"}))
    # container built from the metadata pointer itself (not through Port::meta()): MetaContainer(p.metadata), as path_search does
    for kl, vl in [((1,), (-1,)), ((2, 1), (1, -1))]:
        blen = 1 + sum(1 + k + 1 + (v + 2 if v >= 0 else 0) for k, v in zip(kl, vl))
        d = dict(raw, K=str(len(kl)), KLEN=",".join(map(str, kl)), VLEN=",".join(map(str, vl)), UNSTRIPPED=None)
        obls.append(Obl("C17.unstripped_container." + shape_key(kl, vl), "C17", S, entry="h_shape", defines=d, mode="bounded",
                        bound="shape-bounded, container = MetaContainer(port.metadata): key lengths %s, value lengths %s" % (list(kl), list(vl)),
                        cbmc=["--unwind", str(max(blen + 3, 10)), "--unwinding-assertions"], timeout=900, termination=True,
                        case={"klen": list(kl), "vlen": list(vl), "container": "unstripped"}))
    obls.append(Obl("C17.shape.canary", "C17", S, entry="h_shape", defines=dict(raw, K="3", KLEN="1,1,1", VLEN="-1,1,0"), mode="bounded",
                    bound="canary", cbmc=["--unwind", "20", "--unwinding-assertions"], canary=True))
    L = "harness/C17/literal.c"
    for name, mac, pairs in LITERALS:
        obls.append(Obl("C17.literal." + name, "C17", L, entry="h_literal", defines=dict(raw, LIT=name), mode="bounded",
                        bound="the literal block %s (constants)" % mac, cbmc=["--unwind", "64", "--unwinding-assertions"],
                        timeout=600, termination=True, case={"macros": mac, "pairs": [[k, v] for k, v in pairs]}))
    obls.append(Obl("C17.literal.canary", "C17", L, entry="h_literal", defines=dict(raw, LIT="single_prop"), mode="bounded",
                    bound="canary", cbmc=["--unwind", "64", "--unwinding-assertions"], canary=True))
    if os.environ.get("VERIF_C17_COLON_KEY"):
        # outside the checked domain (see ASSUMPTIONS): a key that starts with ':' - expected to FAIL, witness findings/c17_colon_key_witness.c
        d = dict(raw, K="2", KLEN="2,1", VLEN="1,-1", MS_KEY_MAY_START_WITH_COLON=None)
        obls.append(Obl("C17.colon_key.k2_21_1n", "C17", S, entry="h_shape", defines=d, mode="bounded", bound="keys may start with ':'",
                        cbmc=["--unwind", "16", "--unwinding-assertions"], termination=True))
    return obls
