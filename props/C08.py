"""C08 - Bundles compose and decompose losslessly, including nesting."""
import os, itertools
import vlib
from vlib import Obl

LEVEL = "model_checking"
FUNCTIONS = ["rtosc_bundle", "rtosc_bundle_p", "rtosc_bundle_elements", "rtosc_bundle_fetch", "rtosc_bundle_size",
             "rtosc_bundle_timetag", "rtosc_message_length", "bundle_ring_length", "emplace_uint32", "emplace_uint64",
             "extract_uint32", "extract_uint64"]
TRUSTED = ["CBMC 6.11.0 (goto-cc, cbmc; built-in SAT back end), its va_list/memcpy/memset/strcpy/strcmp models",
           "spec/osc_spec.h: spec_bundle / spec_encode (executable OSC 1.0 specification)",
           "x86-64 LP64 bit-vector semantics; -DNDEBUG as shipped"]
ASSUMPTIONS = [
    "bounded: 0..3 elements per bundle (plus a few sequences of 4 and 5 elements), element kinds from {3 message shapes, blob message, 132-byte blob message, bundle{msg}, bundle{bundle{msg},msg}} "
    "(nesting depth <= 2); payload bytes, all 64-bit time tags, capacity 0..need+8 symbolic",
    "8 elements and depth 3..4 of the property's quantifier are not explored; the element walk is the same loop at every depth",
]
RULE = "one obligation per sequence of element kinds; non-trivial when >0 cbmc properties were generated; distinct by sequence"
EXPLANATION = ("Bounded, exhaustive per element-kind sequence: rtosc_bundle output == spec_bundle byte for byte, recognised as bundle, "
               "element count/fetch/size/time tag/total length read back exactly; messages are never taken for bundles.")
KINDS = ["KA", "KB", "KC", "KD", "KE", "KF"]
PID, PROPDEF = "C08", "PROP_C08"


def prepare(ctx):
    pass


def sequences(tier):
    seqs = [()]
    seqs += [(a,) for a in KINDS]
    if tier == "quick":
        seqs += [("KG",), ("KA", "KG"), ("KG", "KD"), ("KA", "KB"), ("KD", "KC"), ("KC", "KE"), ("KF", "KA"), ("KB", "KB"), ("KE", "KD"),
                 ("KA", "KD", "KC"), ("KE", "KF", "KB"), ("KC", "KC", "KC"),
                 ("KA", "KC", "KD", "KB"), ("KC", "KA", "KC", "KF", "KA")]
    else:
        seqs += [("KG",), ("KA", "KG"), ("KG", "KD"), ("KG", "KG"), ("KE", "KG", "KA"),
                 ("KA", "KC", "KD", "KB"), ("KC", "KA", "KC", "KF", "KA"), ("KD", "KD", "KA", "KE"), ("KB", "KB", "KB", "KB", "KB")]
        seqs += list(itertools.product(KINDS, repeat=2))
        seqs += list(itertools.product(["KA", "KB", "KC", "KD", "KE", "KF"], repeat=3))
    return seqs


def bundle_obligations(ctx, pid, propdef, tier):
    raw = '"%s"' % os.path.join(ctx.repo, "src/rtosc.c")
    obls = []
    for seq in sequences(tier):
        kinds = ",".join(seq + ("KC",) * (6 - len(seq)))
        big = "KG" in seq
        obls.append(Obl("%s.bundle.%s" % (pid, "_".join(seq) or "empty"), pid, "harness/C08/bundle.c", entry="h_bundle",
                        defines=dict({"RTOSC_C": raw, "BN_K": str(len(seq)), "BN_KINDS": kinds, propdef: None}, **({"ELMAX": "136"} if big else {})), mode="bounded",
                        bound="<=3 elements, nesting depth <=2, element shapes fixed, payload/time tag/capacity symbolic",
                        cbmc=["--unwind", "460" if big else "260", "--unwinding-assertions"], timeout=500, mem_gb=10,
                        case={"elements": list(seq)}))
    return obls


SIZES = {"KA": 12, "KB": 12, "KC": 8, "KD": 32, "KE": 64, "KF": 20, "KG": 132}


def bundle_cap_obligations(ctx, pid, propdef, tier):
    """the same sequences with CONCRETE capacities: every multiple of 4 up to the size needed, need-1, need, need+8"""
    raw = '"%s"' % os.path.join(ctx.repo, "src/rtosc.c")
    obls = []
    for seq in sequences(tier):
        if not seq or (tier == "quick" and len(seq) > 2):
            continue
        need = 16 + sum(4 + SIZES[k] for k in seq)
        caps = sorted(set(list(range(0, need, 4)) + [need - 1, need, need + 8]))
        if tier == "quick":
            caps = [c for c in caps if c % 8 == 4 or c in (0, need - 1, need)]
        kinds = ",".join(seq + ("KC",) * (6 - len(seq)))
        big = "KG" in seq
        for cap in caps:
            obls.append(Obl("%s.bundle_cap.%s.cap%03d" % (pid, "_".join(seq), cap), pid, "harness/C08/bundle.c", entry="h_bundle",
                            defines=dict({"RTOSC_C": raw, "BN_K": str(len(seq)), "BN_KINDS": kinds, propdef: None, "BN_CAP": str(cap)},
                                         **({"ELMAX": "136"} if big else {})), mode="bounded",
                            bound="element sequence and capacity fixed, payload/time tag symbolic",
                            cbmc=["--unwind", "460" if big else "260", "--unwinding-assertions"], timeout=600, mem_gb=8,
                            case={"elements": list(seq), "capacity": cap, "needed": need}))
    return obls


def obligations(ctx):
    obls = bundle_obligations(ctx, PID, PROPDEF, ctx.tier)
    raw_ = '"%s"' % os.path.join(ctx.repo, "src/rtosc.c")
    # the produced buffer measured with its (concrete) capacity as bound, destination previously holding arbitrary bytes
    for seq in sequences(ctx.tier):
        if not seq or len(seq) > 2 or "KG" in seq:
            continue
        need = 16 + sum(4 + SIZES[k] for k in seq)
        kinds = ",".join(seq + ("KC",) * (6 - len(seq)))
        for cap in (need, need + 4, need + 8):
            obls.append(Obl("C08.bundle_in_place.%s.cap%03d" % ("_".join(seq), cap), "C08", "harness/C08/bundle.c", entry="h_bundle",
                            defines={"RTOSC_C": raw_, "BN_K": str(len(seq)), "BN_KINDS": kinds, "PROP_C08": None, "BN_CAP": str(cap)},
                            mode="bounded", bound="element sequence and capacity fixed; payload, time tag and previous buffer content symbolic",
                            cbmc=["--unwind", "260", "--unwinding-assertions"], timeout=600, mem_gb=8,
                            case={"elements": list(seq), "capacity": cap, "needed": need}))
    # known finding (known-findings.txt): an element that is itself a bundle, held in an exact-size object
    raw = '"%s"' % os.path.join(ctx.repo, "src/rtosc.c")
    obls.append(Obl("C08.bundle_exact_nested.KD", "C08", "harness/C08/bundle.c", entry="h_bundle",
                    defines={"RTOSC_C": raw, "BN_K": "1", "BN_KINDS": "KD,KC,KC,KC,KC,KC", "PROP_C08": None, "BN_EXACT_NESTED": None},
                    mode="bounded", bound="1 element: bundle{msg} in an exact-size object",
                    cbmc=["--unwind", "100", "--unwinding-assertions"], timeout=900, case={"elements": ["KD (exact size)"]}))
    return obls
