#!/usr/bin/env python3
"""Mechanical extraction of C-style functions out of .cpp/.h working-tree files (DESIGN section 4, route R2).

Functions are cut by name with brace matching and rewritten by a fixed rule table. Every rule has an
expected fire count; a different count raises ExtractError (the check then exits 2 - never a verdict).
No statement of a function body is added, removed or reordered by the rules; what each rule drops is
stated in DESIGN.md. The rule log goes into the evidence file."""
import re, os
from inject_loops import blank_noncode, match_close


class ExtractError(Exception):
    pass


def _header_start(code, name_pos):
    """start of the definition that contains name_pos: just after the previous ';' or '}' or '#...' line at depth 0"""
    k = name_pos
    while k > 0:
        c = code[k - 1]
        if c in ";}":
            break
        if c == "\n":
            # stop at preprocessor lines
            ls = code.rfind("\n", 0, k - 1) + 1
            if code[ls:k - 1].lstrip().startswith("#"):
                break
        k -= 1
    while k < name_pos and code[k].isspace():
        k += 1
    return k


def cut_function(src, name, occurrence=1, qualifier=None):
    """Return the text of the `occurrence`-th definition of function `name` (optionally `qualifier::name`)."""
    code = blank_noncode(src)
    pat = (re.escape(qualifier) + r"\s*::\s*" if qualifier else r"(?<![A-Za-z0-9_:~])") + re.escape(name) + r"\s*\("
    found = 0
    for m in re.finditer(pat, code):
        p = match_close(code, m.end() - 1, "(", ")")
        mm = re.compile(r"\s*(?:const\b|noexcept\b|override\b|\s)*").match(code, p + 1)
        j = mm.end()
        if j >= len(code) or code[j] != "{":
            continue
        k = m.start() - 1
        while k >= 0 and code[k] in " \t\n*&":
            k -= 1
        if k >= 0 and not (code[k].isalnum() or code[k] in "_>:"):
            continue
        found += 1
        if found == occurrence:
            end = match_close(code, j, "{", "}")
            return src[_header_start(code, m.start()):end + 1]
    raise ExtractError("definition %d of %s%s not found" % (occurrence, (qualifier + "::") if qualifier else "", name))


def cut_struct(src, name, keyword=r"(?:struct|class)"):
    code = blank_noncode(src)
    m = re.search(keyword + r"\s+" + re.escape(name) + r"\s*(?::[^{;]*)?\{", code)
    if not m:
        raise ExtractError("struct %s not found" % name)
    end = match_close(code, m.end() - 1, "{", "}")
    semi = code.index(";", end)
    return src[m.start():semi + 1]


def cut_between(src, start_pat, end_pat):
    m = re.search(start_pat, src)
    if not m:
        raise ExtractError("start pattern %r not found" % start_pat)
    e = re.compile(end_pat).search(src, m.end())
    if not e:
        raise ExtractError("end pattern %r not found" % end_pat)
    return src[m.start():e.end()]


def apply_rules(text, rules, log, where):
    """rules: list of (rule_name, regex, replacement, expected_count or None for >=1 or (lo,hi))."""
    for name, pat, repl, expect in rules:
        text, n = re.subn(pat, repl, text, flags=re.S)
        ok = (n >= 1) if expect is None else (expect[0] <= n <= expect[1]) if isinstance(expect, tuple) else (n == expect)
        log.append("extract rule %-12s in %-28s fired %d (expected %s)" % (name, where, n, "≥1" if expect is None else expect))
        if not ok:
            raise ExtractError("rule %s in %s fired %d times, expected %s" % (name, where, n, expect))
    return text


def read(repo, rel):
    with open(os.path.join(repo, rel)) as f:
        return f.read()


def write(ctx, fname, text):
    path = os.path.join(ctx.ext, fname)
    with open(path, "w") as f:
        f.write(text)
    return path
