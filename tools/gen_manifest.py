#!/usr/bin/env python3
"""Writes /verif/MANIFEST.json from the table below (single source of truth for claims)."""
import json, os
HERE = os.path.dirname(os.path.dirname(os.path.abspath(__file__)))

CLAIMED = {}   # id -> dict(category, text, note, technique, design_ref)
NA = {}        # id -> reason

def claim(pid, category, text, note, technique, ref):
    CLAIMED[pid] = dict(category=category, text=text, note=note, technique=technique, ref=ref)

exec(open(os.path.join(HERE, "tools", "claims.py")).read())

checks = []
for pid in sorted(CLAIMED):
    c = CLAIMED[pid]
    checks.append({
        "property_id": pid,
        "quick_cmd": "./check %s --tier quick" % pid,
        "thorough_cmd": "./check %s --tier thorough" % pid,
        "evidence_file": "/verif/evidence/%s.json" % pid,
        "replay_cmd_template": "./check --replay {path}",
        "engine": "cbmc-contracts",
        "level_claimed": {"category": c["category"], "text": c["text"], "design_ref": c["ref"]},
        "level_note": c["note"],
        "technique": c["technique"],
    })
man = {
    "version": 1,
    "setup_cmd": "python3 tools/setup_check.py",
    "hooks": {
        "guard": "RTOSC_VERIF",
        "enable": "No hook code exists in /repo: contracts are forward declarations kept in /verif/contracts, loop contracts are injected "
                  "into a scratch copy of the working-tree file on every run (round-trip checked), .cpp leaf functions are extracted "
                  "mechanically. -DRTOSC_VERIF is defined only when /verif harnesses are compiled.",
        "baseline_off_cmd": "cmake -G Ninja -S /repo -B /repo/_build -DCMAKE_BUILD_TYPE=RelWithDebInfo && cmake --build /repo/_build && ctest --test-dir /repo/_build -j8 --timeout 900",
        "source_commits": [],
        "add_only": True,
    },
    "engines": [{
        "name": "cbmc-contracts", "path": "/verif/check",
        "serves_properties": sorted(CLAIMED),
        "kind_free_text": "CBMC 6.11 code contracts (goto-instrument --dfcc: enforce per function, callees replaced by their contracts, "
                          "loop contracts) on the real C sources / mechanically extracted C-style functions; bounded stand-ins labelled bounded; "
                          "counterexamples replayed natively (gcc + ASan/UBSan) against the working tree",
    }],
    "checks": checks,
    "not_applicable": [{"property_id": k, "reason": NA[k]} for k in sorted(NA)],
    "notes": "Exit codes: 0 held / 1 VIOLATION / 2 undecided (tool failure, timeout, extraction rule did not fire) - never reported as a violation. "
             "Genuine defects found on the pinned tree were repaired by 'fix:' commits in /repo and are listed in /verif/known-findings.txt.",
}
json.dump(man, open(os.path.join(HERE, "MANIFEST.json"), "w"), indent=1)
print("MANIFEST.json: %d checks, %d not applicable" % (len(checks), len(NA)))
