#!/usr/bin/env python3
"""Shape generator for the codec obligations (C01, C02, C08): a shape fixes the tag string, the address and
every string/blob length; the emitted header makes everything else symbolic (see harness/C01/shape.c)."""
import os, itertools, random, hashlib

VALUE_TAGS = "ifsbhtdScrmTFNI"
ALL_TAGS = VALUE_TAGS + "[]"
PAYLOAD = set("ifsbhtdScrm")
FOUR = set("ifcrm"); EIGHT = set("htd"); STR = set("sS")


def pad_str(n): return (n // 4 + 1) * 4
def pad4(n): return (n + 3) & ~3


class Shape:
    def __init__(self, addr_len, tags, lens, nulls=(), symstr=False):
        """lens: one length per s/S/b tag in order; nulls: indices (among blobs) with NULL data"""
        self.addr = "/" + "".join("abcdefghijklmnopqrstuvwxyz0123456789_-"[(i * 7) % 38] for i in range(addr_len - 1))
        self.tags = tags
        self.lens = list(lens)
        self.nulls = set(nulls)
        self.symstr = symstr

    def key(self):
        return "a%d_%s_%s%s%s" % (len(self.addr), self.tags.replace("[", "L").replace("]", "R") or "none",
                                  "-".join(map(str, self.lens)) or "x",
                                  ("_null" + "".join(map(str, sorted(self.nulls)))) if self.nulls else "",
                                  "_sym" if self.symstr else "")

    def describe(self):
        return {"address": self.addr, "tags": self.tags, "string/blob lengths": self.lens,
                "blobs with NULL data": sorted(self.nulls), "symbolic string bytes": self.symstr}

    def need(self):
        n = pad_str(len(self.addr)) + pad_str(1 + len(self.tags))
        li = 0
        for t in self.tags:
            if t in FOUR: n += 4
            elif t in EIGHT: n += 8
            elif t in STR: n += pad_str(self.lens[li]); li += 1
            elif t == "b": n += 4 + pad4(self.lens[li]); li += 1
        return n

    def header(self):
        L = []
        npay = sum(1 for t in self.tags if t in PAYLOAD)
        nvals = sum(1 for t in self.tags if t not in "[]")
        maxb = max(self.lens + [1])
        L.append('#define SH_ADDR "%s"' % self.addr)
        L.append('#define SH_TAGS "%s"' % self.tags)
        L.append("#define SH_NPAY %d" % npay)
        L.append("#define SH_NVALS %d" % nvals)
        L.append("#define SH_NEED %d" % self.need())
        L.append("#define SH_MAXB %d" % maxb)
        build, checks, va, snan, decls, avb = [], [], [], [], [], []
        p = 0; li = 0; bi = 0; vi = 0
        for ti, t in enumerate(self.tags):
            if t in "[]":
                continue
            chk = ['A01(rtosc_type((const char*)m, %d) == \'%s\', "C01 type(i) is the original tag");' % (vi, t),
                   'rtosc_arg_t a = rtosc_argument((const char*)m, %d);' % vi,
                   'A01(!rtosc_itr_end(it), "C01 iterator yields at least narguments values");',
                   'rtosc_arg_val_t av = rtosc_itr_next(&it); cnt++;',
                   'A01(av.type == \'%s\', "C01 iterator type is the original tag");' % t]
            avb.append("av[%d].type = '%s';" % (vi, t))
            if t in PAYLOAD:
                avb.append("av[%d].val = args[%d];" % (vi, p))
                if t in FOUR and t != "m":
                    build.append("args[%d].i = (int32_t)(uint32_t)IN.bits[%d]; v[%d].bits = (uint32_t)IN.bits[%d];" % (p, p, p, p))
                    chk.append('A01((uint32_t)a.i == (uint32_t)IN.bits[%d] && (uint32_t)av.val.i == (uint32_t)IN.bits[%d], "C01 4-byte value bit-identical");' % (p, p))
                    if t == "f":
                        va.append("(double)v_bits_f((uint32_t)IN.bits[%d])" % p)
                        snan.append("{ uint32_t w = (uint32_t)IN.bits[%d]; if((w & 0x7f800000u) == 0x7f800000u && (w & 0x007fffffu)) snan = 1; }" % p)
                    else:
                        va.append("(int)args[%d].i" % p)
                elif t == "m":
                    build.append("{ uint32_t w = (uint32_t)IN.bits[%d]; args[%d].m[0] = w >> 24; args[%d].m[1] = w >> 16; args[%d].m[2] = w >> 8; args[%d].m[3] = w; v[%d].bits = w; }" % (p, p, p, p, p, p))
                    chk.append('{ uint32_t w = (uint32_t)IN.bits[%d]; A01(a.m[0] == (uint8_t)(w >> 24) && a.m[1] == (uint8_t)(w >> 16) && a.m[2] == (uint8_t)(w >> 8) && a.m[3] == (uint8_t)w, "C01 midi bytes identical");'
                               ' A01(av.val.m[0] == a.m[0] && av.val.m[1] == a.m[1] && av.val.m[2] == a.m[2] && av.val.m[3] == a.m[3], "C01 iterator midi identical"); }' % p)
                    va.append("args[%d].m" % p)
                elif t in EIGHT:
                    build.append("args[%d].t = IN.bits[%d]; v[%d].bits = IN.bits[%d];" % (p, p, p, p))
                    chk.append('A01(a.t == IN.bits[%d] && av.val.t == IN.bits[%d], "C01 8-byte value bit-identical");' % (p, p))
                    va.append("v_bits_d(IN.bits[%d])" % p if t == "d" else "(int64_t)args[%d].t" % p)
                elif t in STR:
                    ln = self.lens[li]; li += 1
                    if self.symstr:
                        decls.append("static char s_%d[%d];" % (p, ln + 1))
                        build.append("for(int j = 0; j < %d; j++) { V_ASSUME(IN.blob[%d][j] != 0); s_%d[j] = (char)IN.blob[%d][j]; } s_%d[%d] = 0;" % (ln, p, p, p, p, ln))
                    else:
                        bs = ", ".join("(char)0x%02x" % ((0x81 + 37 * j + 11 * p) % 255 + 1) for j in range(ln))
                        decls.append("static const char s_%d[%d] = { %s%s0 };" % (p, ln + 1, bs, ", " if bs else ""))
                    build.append("args[%d].s = s_%d; v[%d].s = s_%d;" % (p, p, p, p))
                    chk.append('A01((const uint8_t*)a.s >= m && (const uint8_t*)a.s + %d < m + SH_NEED && av.val.s == a.s, "C01 string payload lies inside the message");' % ln)
                    chk.append('for(int j = 0; j <= %d; j++) A01(a.s[j] == s_%d[j], "C01 string content identical");' % (ln, p))
                    va.append("s_%d" % p)
                else:  # blob
                    ln = self.lens[li]; li += 1
                    null = bi in self.nulls; bi += 1
                    data = "NULL" if null else "IN.blob[%d]" % p
                    build.append("args[%d].b.len = %d; args[%d].b.data = %s; v[%d].len = %d; v[%d].data = %s;" % (p, ln, p, data, p, ln, p, data))
                    chk.append('A01(a.b.len == %d && av.val.b.len == %d, "C01 blob length identical");' % (ln, ln))
                    chk.append('A01(a.b.data >= m && a.b.data + %d <= m + SH_NEED && av.val.b.data == a.b.data, "C01 blob payload lies inside the message");' % ln)
                    chk.append('for(int j = 0; j < %d; j++) A01(a.b.data[j] == %s, "C01 blob content identical");' % (ln, "0" if null else "IN.blob[%d][j]" % p))
                    va.append("%d, %s" % (ln, "(unsigned char*)0" if null else "IN.blob[%d]" % p))
                p += 1
            else:
                if t in "TF": avb.append("av[%d].val.T = %d;" % (vi, 1 if t == "T" else 0))
                if t == "T": chk.append('A01(a.T == 1 && av.val.T == 1, "C01 T reads back true");')
                if t == "F": chk.append('A01(a.T == 0 && av.val.T == 0, "C01 F reads back false");')
            checks.append("{ " + " ".join(chk) + " }")
            vi += 1
        L += decls
        L.append("#define SH_BUILD " + " ".join(build))
        L.append("#define SH_CHECKS " + " ".join(checks))
        L.append("#define SH_SNAN_CHECK " + " ".join(snan))
        L.append("#define SH_AVBUILD " + " ".join(avb))
        L.append("#define SH_VARARGS(b, c) rtosc_message((b), (c), SH_ADDR, SH_TAGS%s)" % ("".join(", " + x for x in va)))
        return "\n".join(L) + "\n"


def lens_for(tags, choices):
    n = sum(1 for t in tags if t in "sSb")
    return itertools.product(choices, repeat=n)


def balanced_or_any(tags):
    return True


def enumerate_shapes(tier, seed):
    """quick: a few hundred shapes; thorough: several thousand (see DESIGN 6/C01)."""
    shapes = []
    reps = "ihsbT[]"
    if tier == "quick":
        tagsets = [""] + list(ALL_TAGS)
        tagsets += ["".join(x) for x in itertools.product(reps, repeat=2)]
        tagsets += ["[ii]", "sbi", "bsm", "dfs", "TsN", "[s][b]"]
        tagsets += ["ifsbh", "sifTdmc", "[i[ss]]b", "hhhhiiii", "tdrcmSFI", "iiiiiiisiiii"]     # more than three values
        for k, tags in enumerate(tagsets):
            nstr = sum(1 for t in tags if t in "sSb")
            if nstr == 0:
                for al in (1, 2, 3, 4):
                    shapes.append(Shape(al, tags, []))
            elif nstr == 1:
                for j, ln in enumerate((0, 1, 3, 4, 5)):
                    shapes.append(Shape(1 + (k + j) % 4, tags, [ln]))
            else:
                for j, ls in enumerate(((0, 0), (1, 3), (3, 4), (4, 1))):
                    shapes.append(Shape(1 + (k + j) % 4, tags, ls[:nstr] if nstr <= 2 else list(ls) + [2] * (nstr - 2)))
        shapes.append(Shape(2, "b", [3], nulls=[0])); shapes.append(Shape(3, "b", [0], nulls=[0]))
        shapes.append(Shape(1, "bi", [5], nulls=[0])); shapes.append(Shape(4, "sb", [2, 4], nulls=[0]))
        for ln in (1, 3, 4):
            shapes.append(Shape(2, "s", [ln], symstr=True))
        shapes.append(Shape(3, "is", [2], symstr=True))
    else:
        rnd = random.Random(seed)
        tagsets = [""] + list(ALL_TAGS) + ["".join(x) for x in itertools.product(ALL_TAGS, repeat=2)]
        tagsets += ["".join(x) for x in itertools.product(reps, repeat=3)]
        for k, tags in enumerate(tagsets):
            nstr = sum(1 for t in tags if t in "sSb")
            if nstr == 0:
                for al in (1, 2, 3, 4, 5):
                    shapes.append(Shape(al, tags, []))
            else:
                choices = (0, 1, 2, 3, 4, 5) if nstr == 1 else (0, 1, 3, 4)
                for j, ls in enumerate(itertools.product(choices, repeat=nstr)):
                    if nstr == 3 and rnd.random() > 0.25:
                        continue
                    shapes.append(Shape(1 + (k + j) % 5, tags, ls))
        for tags in ("b", "bi", "sb", "bb"):
            nb = tags.count("b")
            for ln in (0, 1, 4, 5):
                lens = [ln if t == "b" else 2 for t in tags if t in "sSb"]
                shapes.append(Shape(2, tags, lens, nulls=range(nb)))
        for ln in (0, 1, 2, 3, 4, 5, 8):
            shapes.append(Shape(2, "s", [ln], symstr=True)); shapes.append(Shape(3, "Si", [ln], symstr=True))
        # random longer tag strings: fixed-size tags with one string or blob, length 4..40
        for _ in range(150):
            n = rnd.randint(4, 40)
            tags = [rnd.choice("ifhtdcrmTFNI[]") for _ in range(n)]
            tags[rnd.randrange(n)] = rnd.choice("sSb")
            shapes.append(Shape(rnd.randint(1, 9), "".join(tags), [rnd.choice((0, 1, 3, 4, 7, 8))]))
        shapes.append(Shape(64, "i", []))
        shapes.append(Shape(61, "s", [16])); shapes.append(Shape(62, "b", [64])); shapes.append(Shape(63, "sb", [32, 32]))
    if tier != "quick":
        # memory: with two or more blobs of symbolic content the formula grows to 7-11 GB per obligation and a 62 GB machine
        # was OOM-killed; the thorough tier therefore drops its own multi-blob shapes and takes over the quick tier's
        # (few, measured) ones, so that thorough is a superset of quick
        def nblobs(sh):
            return sum(1 for t in sh.tags if t == "b")
        shapes = [sh for sh in shapes if nblobs(sh) < 2] + enumerate_shapes("quick", seed)
    seen, out = set(), []
    for s in shapes:
        if s.key() not in seen:
            seen.add(s.key()); out.append(s)
    return out


def write_shape(ctx_dir, shape):
    d = os.path.join(ctx_dir, "shapes")
    os.makedirs(d, exist_ok=True)
    name = hashlib.sha1(shape.key().encode()).hexdigest()[:12]
    path = os.path.join(d, "shape_%s.h" % name)
    with open(path, "w") as f:
        f.write("/* generated: %s */\n" % shape.key() + shape.header())
    return path


if __name__ == "__main__":
    import sys
    sh = enumerate_shapes(sys.argv[1] if len(sys.argv) > 1 else "quick", 0)
    print(len(sh))
    print(sh[40].key()); print(sh[40].header())
