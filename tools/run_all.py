#!/usr/bin/env python3
"""Run every claimed check (quick tier by default) on /repo, one after the other, and validate the evidence files.
usage: run_all.py [quick|thorough] [ids...]   (evidence validation needs the tooling venv: run with python3-vt)"""
import json, subprocess, sys, time, os
HERE = os.path.dirname(os.path.dirname(os.path.abspath(__file__)))
tier = sys.argv[1] if len(sys.argv) > 1 else "quick"
man = json.load(open(os.path.join(HERE, "MANIFEST.json")))
ids = sys.argv[2:] or [c["property_id"] for c in man["checks"]]
try:
    import jsonschema
    schema = json.load(open("/root/.vp/EVIDENCE.schema.json"))
except Exception:
    jsonschema = None
bad = 0
for pid in ids:
    t0 = time.time()
    r = subprocess.run([os.path.join(HERE, "check"), pid, "--tier", tier], cwd=HERE, stdout=subprocess.PIPE, stderr=subprocess.STDOUT, text=True)
    last = [l for l in r.stdout.splitlines() if l.startswith(pid + " ")][-1:] or [""]
    ev = "?"
    try:
        d = json.load(open(os.path.join(HERE, "evidence", pid + ".json")))
        if jsonschema:
            jsonschema.validate(d, schema); ev = "evidence valid"
        lvl = d["level"]; c = d["coverage"]
        if lvl == "proof" and c.get("obligations") != c.get("discharged"):
            ev += " BUT discharged != obligations"
    except Exception as e:
        ev = "EVIDENCE PROBLEM: %s" % str(e)[:200]
    flag = "" if r.returncode == 0 else "   <<<<<< exit %d" % r.returncode
    bad += r.returncode != 0
    print("%s exit=%d %.0fs | %s | %s%s" % (pid, r.returncode, time.time() - t0, last[0][:150], ev, flag), flush=True)
    for l in r.stdout.splitlines():
        if l.startswith(("VIOLATION", "UNDECIDED", "PROOF-DEGRADED", "KNOWN-FINDING")):
            print("    " + l[:220])
sys.exit(1 if bad else 0)
