#!/usr/bin/env python3
"""Loop-contract injection (DESIGN section 4, route R1).

A .loops file lists, per (function, loop ordinal), the CBMC loop-contract clauses to put
between the loop header and its body. inject() writes <out> = working-tree file + those
clauses and then proves the round trip: deleting exactly the inserted spans reproduces the
working-tree file byte for byte.

.loops syntax:
    @file src/rtosc.c
    @function rtosc_message_ring_length
    @loop 1 fp: while(deref(pos++,ring))
        __CPROVER_assigns(pos)
        __CPROVER_loop_invariant(...)
        __CPROVER_decreases(...)
Lines starting with '#' are comments. `fp:` is a fingerprint of the header (whitespace-free
prefix); a mismatch is logged, not fatal. A missing function or ordinal raises InjectError.
"""
import re, os


class InjectError(Exception):
    pass


def blank_noncode(src):
    """Replace comments, string and char literals by spaces (same length, newlines kept)."""
    out = list(src)
    i, n = 0, len(src)
    while i < n:
        c = src[i]
        if src.startswith("//", i):
            j = src.find("\n", i)
            j = n if j < 0 else j
            for k in range(i, j): out[k] = " "
            i = j
        elif src.startswith("/*", i):
            j = src.find("*/", i + 2)
            j = n if j < 0 else j + 2
            for k in range(i, j):
                if src[k] != "\n": out[k] = " "
            i = j
        elif c == '"' or c == "'":
            j = i + 1
            while j < n and src[j] != c:
                j += 2 if src[j] == "\\" else 1
            for k in range(i + 1, min(j, n)):
                if src[k] != "\n": out[k] = " "
            i = j + 1
        else:
            i += 1
    return "".join(out)


def match_close(code, i, op, cl):
    depth = 0
    n = len(code)
    while i < n:
        if code[i] == op: depth += 1
        elif code[i] == cl:
            depth -= 1
            if depth == 0:
                return i
        i += 1
    raise InjectError("unbalanced %s" % op)


def find_function(code, name):
    """Return (body_open, body_close) offsets of the definition of `name`."""
    for m in re.finditer(r"(?<![A-Za-z0-9_])" + re.escape(name) + r"\s*\(", code):
        p = match_close(code, m.end() - 1, "(", ")")
        j = p + 1
        # skip whitespace / 'const' / 'noexcept' / 'override'
        mm = re.compile(r"\s*(?:const\b|noexcept\b|override\b|\s)*").match(code, j)
        j = mm.end()
        if j < len(code) and code[j] == "{":
            # must be at top level or class level: crude check that previous non-space token is not an operator/','/'('
            k = m.start() - 1
            while k >= 0 and code[k] in " \t\n*&": k -= 1
            if k >= 0 and (code[k].isalnum() or code[k] in "_>:"):
                return j, match_close(code, j, "{", "}")
    raise InjectError("function %s not found" % name)


def find_loops(code, lo, hi):
    """Ordered loop list inside code[lo:hi]: (keyword_pos, insert_pos, header_text)."""
    loops = []
    skip_while = set()
    for m in re.finditer(r"(?<![A-Za-z0-9_])(for|while|do)(?![A-Za-z0-9_])", code[lo:hi]):
        kw, pos = m.group(1), lo + m.start()
        if kw == "do":
            ins = pos + 2
            j = ins
            while code[j].isspace(): j += 1
            if code[j] == "{":
                e = match_close(code, j, "{", "}") + 1
            else:
                e = code.index(";", j) + 1
            mm = re.compile(r"\s*while\s*\(").match(code, e)
            if not mm:
                raise InjectError("do without while at %d" % pos)
            skip_while.add(code.index("while", e))
            loops.append((pos, ins, "do"))
        else:
            if kw == "while" and pos in skip_while:
                continue
            j = pos + len(kw)
            while code[j].isspace(): j += 1
            if code[j] != "(":
                continue
            p = match_close(code, j, "(", ")")
            loops.append((pos, p + 1, code[pos:p + 1]))
    return loops


def parse_loops_file(path):
    specs = []   # dict(file, function, ordinal, fp, clauses)
    cur_file = cur_fn = None
    cur = None
    for raw in open(path):
        line = raw.rstrip("\n")
        s = line.strip()
        if not s or s.startswith("#"):
            continue
        if s.startswith("@file"):
            cur_file = s.split(None, 1)[1].strip()
        elif s.startswith("@function"):
            cur_fn = s.split(None, 1)[1].strip()
        elif s.startswith("@loop"):
            m = re.match(r"@loop\s+(\d+)(?:\s+fp:\s*(.*))?$", s)
            cur = {"file": cur_file, "function": cur_fn, "ordinal": int(m.group(1)),
                   "fp": (m.group(2) or "").strip(), "clauses": []}
            specs.append(cur)
        else:
            if cur is None:
                raise InjectError("clause before @loop in %s" % path)
            cur["clauses"].append(s)
    return specs


def inject(repo, specs, relfile, out_path, notes):
    src = open(os.path.join(repo, relfile)).read()
    code = blank_noncode(src)
    inserts = []  # (pos, text)
    for sp in specs:
        if sp["file"] != relfile:
            continue
        lo, hi = find_function(code, sp["function"])
        loops = find_loops(code, lo, hi)
        if sp["ordinal"] < 1 or sp["ordinal"] > len(loops):
            raise InjectError("%s: loop %d not found (function has %d loops)" % (sp["function"], sp["ordinal"], len(loops)))
        kwpos, ins, header = loops[sp["ordinal"] - 1]
        hdr = re.sub(r"\s+", "", src[kwpos:ins] if header != "do" else "do")
        if sp["fp"] and re.sub(r"\s+", "", sp["fp"]) != hdr:
            notes.append("loop fingerprint changed: %s loop %d: expected `%s` found `%s` (clauses injected anyway)" %
                         (sp["function"], sp["ordinal"], sp["fp"], hdr))
        inserts.append((ins, " " + " ".join(sp["clauses"]) + " "))
    inserts.sort()
    out, last = [], 0
    spans = []
    for pos, text in inserts:
        out.append(src[last:pos])
        start = sum(len(x) for x in out)
        out.append(text)
        spans.append((start, start + len(text)))
        last = pos
    out.append(src[last:])
    res = "".join(out)
    # round trip: removing exactly the inserted spans gives the working-tree file
    back, last = [], 0
    for a, b in spans:
        back.append(res[last:a]); last = b
    back.append(res[last:])
    if "".join(back) != src:
        raise InjectError("round-trip check failed for %s" % relfile)
    os.makedirs(os.path.dirname(out_path), exist_ok=True)
    with open(out_path, "w") as f:
        f.write(res)
    notes.append("injected %d loop contracts into %s (round trip identical to working tree)" % (len(inserts), relfile))
    return len(inserts)


def count_loops(repo, relfile, function):
    src = open(os.path.join(repo, relfile)).read()
    code = blank_noncode(src)
    lo, hi = find_function(code, function)
    return [h for _, _, h in find_loops(code, lo, hi)]


if __name__ == "__main__":
    import sys
    for fn in sys.argv[2:]:
        for i, h in enumerate(count_loops("/repo", sys.argv[1], fn), 1):
            print(fn, i, re.sub(r"\s+", "", h))
