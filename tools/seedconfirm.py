#!/usr/bin/env python3
"""Confirm a seeded change independently in a scratch worktree and record it under /verif/seeded/<name>/.
usage: seedconfirm.py <name> <prop> <seed_out_dir> '<demo build+run command with {WT} {DEMO} {B}>' '<needs>'
Steps: fresh worktree of /repo HEAD under /var/tmp; build+ctest clean; demo on clean (must exit 0); apply patch;
build; ctest (must be 31/31); demo (must fail); record meta.json; remove the worktree."""
import sys, os, subprocess, shutil, json, tempfile, glob
name, prop, sdir, democmd, needs = sys.argv[1:6]
dst = os.path.join("/verif/seeded", name)
os.makedirs(dst, exist_ok=True)
shutil.copy(os.path.join(sdir, "patch.diff"), os.path.join(dst, "patch.diff"))
demo = [f for f in glob.glob(os.path.join(sdir, "demo.c*"))][0]
shutil.copy(demo, os.path.join(dst, os.path.basename(demo)))
if os.path.exists(os.path.join(sdir, "README.txt")):
    shutil.copy(os.path.join(sdir, "README.txt"), os.path.join(dst, "README.txt"))
wt = tempfile.mkdtemp(prefix="wt-seed-", dir="/var/tmp"); os.rmdir(wt)
def sh(cmd, **kw):
    return subprocess.run(cmd, shell=True, stdout=subprocess.PIPE, stderr=subprocess.STDOUT, text=True, **kw)
sh("git -C /repo worktree add -f --detach %s HEAD" % wt)
log = {}
try:
    B = os.path.join(wt, "_b")
    def build_test():
        r = sh("cmake -G Ninja -S %s -B %s -DCMAKE_BUILD_TYPE=RelWithDebInfo >/dev/null && cmake --build %s 2>&1 | tail -3 && ctest --test-dir %s -j8 2>&1 | tail -4" % (wt, B, B, B))
        return r.stdout
    cmd = democmd.format(WT=wt, DEMO=os.path.join(dst, os.path.basename(demo)), B=B)
    log["clean_ctest"] = build_test()
    r = sh(cmd, env=dict(os.environ, ASAN_OPTIONS="detect_leaks=0")); log["clean_demo_rc"] = r.returncode; log["clean_demo_tail"] = r.stdout[-600:]
    a = sh("git -C %s apply %s" % (wt, os.path.join(dst, "patch.diff"))); log["apply"] = a.stdout + str(a.returncode)
    log["seeded_ctest"] = build_test()
    r = sh(cmd, env=dict(os.environ, ASAN_OPTIONS="detect_leaks=0")); log["seeded_demo_rc"] = r.returncode; log["seeded_demo_tail"] = r.stdout[-900:]
    ok = ("100% tests passed" in log["clean_ctest"] and "100% tests passed" in log["seeded_ctest"] and "out of 31" in log["seeded_ctest"]
          and log["clean_demo_rc"] == 0 and log["seeded_demo_rc"] != 0)
    meta = {"name": name, "breaks_property": prop, "needs_to_manifest": needs, "confirmed": ok,
            "base_commit": sh("git -C /repo rev-parse --short HEAD").stdout.strip(),
            "what_was_run": {"build+tests": "cmake -G Ninja ... && cmake --build && ctest -j8 (clean and seeded)", "demo": democmd},
            "results": log}
    json.dump(meta, open(os.path.join(dst, "meta.json"), "w"), indent=1)
    print(name, "CONFIRMED" if ok else "NOT CONFIRMED", "| clean demo rc", log["clean_demo_rc"], "| seeded demo rc", log["seeded_demo_rc"],
          "| ctest:", log["seeded_ctest"].strip().splitlines()[-3] if log["seeded_ctest"].strip() else "?")
finally:
    sh("git -C /repo worktree remove --force %s" % wt); shutil.rmtree(wt, ignore_errors=True)
