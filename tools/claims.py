# Claims table (exec'd by gen_manifest.py). Keep in sync with DESIGN.md section 6/7.
claim("C07", "proof",
      "Sentence 1 of the property (message-length and validity functions read only inside the n bytes, report 0 or <= n, terminate) is "
      "proved for every buffer length n <= 2^24 by enforced function contracts and loop contracts on the real src/rtosc.c "
      "(deref, bundle_ring_length, rtosc_message_ring_length, rtosc_message_length, rtosc_valid_message_p), each caller checked against "
      "its callees' contracts. Sentence 2 (accepted => every accessor stays inside n and agrees with an independent reference decoder) "
      "is decided by bounded obligations that are exhaustive for EVERY byte string of length 0..12 (quick) / 0..20 (thorough): all "
      "2^(8n) buffers symbolic at once in an exact-size object; these are reported as bounded, not as proved.",
      "Trusted: CBMC and its SAT back end, CBMC's isprint model, LP64 bit-vector semantics, -DNDEBUG as shipped. Termination of the one "
      "loop `while(toparse)` is only covered by unwinding assertions inside the bound. Reference decoder is lenient (padding content ignored, "
      "unknown tags carry no payload).",
      "CBMC function+loop contracts (dfcc) on real C code; bounded exhaustive symbolic buffers vs spec decoder", "DESIGN.md section 6 / C07")

_later = "check not built yet in this revision (planned, see DESIGN.md section 6)"
for k in ("C01", "C02", "C03", "C05", "C06", "C08", "C14", "C16", "C17", "C18", "C19"):
    NA[k] = _later
NA["C04"] = "Dispatch, the perfect-hash construction and the callbacks are C++ over std::vector<Port>, std::string, std::function with range-for/lambdas; CBMC's C++ front end rejects the TU and has no contract syntax in C++ mode; the only C ingredient, rtosc_match, is decided under C05."
NA["C09"] = "walk_ports/walk_ports_recurse/bundle_foreach/port_is_enabled take Ports&, iterate std::vector, call std::function ports and snprintf into the shared buffer; no C-extractable core carries the statement."
NA["C10"] = "The printer and scanner are snprintf(\"%a\"), strftime, sscanf, localtime: libc text conversion of floats and dates, which CBMC neither models nor can be given a contract that decides round-tripping."
NA["C11"] = "Agreement of two hand-written recognisers over text whose tokens are classified by sscanf format probes; no string theory and no sscanf semantics in the verifier."
NA["C12"] = "Save/load is a pipeline through std::string, std::vector, std::set, std::map, std::function port callbacks, varargs capture and the printf/scanf-bound printer/scanner."
NA["C13"] = "scan_deps and the Kahn sort operate on std::map<std::string,message_t*>, std::vector, std::queue with lambdas; out of reach of CBMC's C++ front end."
NA["C15"] = "State is a std::deque<pair<time_t,const char*>> of heap messages driven through std::function and time(); verifying it would mean proving a hand-written stand-in for the container (a model, a different family)."
NA["C20"] = "std::map<std::string, std::tuple<...>>, std::deque, TinyVector templates, capturing lambdas stored in std::function; float bijection; out of reach of contracts CBMC can check."
