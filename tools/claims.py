# Claims table (exec'd by gen_manifest.py). Keep in sync with DESIGN.md section 6/7.
claim("C07", "proof",
      "Sentence 1 of the property (message-length and validity functions read only inside the n bytes, report 0 or <= n, terminate) is "
      "proved for every buffer length n <= 2^24 by enforced function contracts and loop contracts on the real src/rtosc.c "
      "(deref, bundle_ring_length, rtosc_message_ring_length, rtosc_message_length, rtosc_valid_message_p), each caller checked against "
      "its callees' contracts. Sentence 2 (accepted => every accessor stays inside n and agrees with an independent reference decoder) "
      "is decided by bounded obligations that are exhaustive for EVERY byte string of length 0..12 (quick) / 0..18 (thorough), plus a "
      "structured family (address '/a' and a tag string fixed - 1..2 tags over {s,b,i,h,T} and four bracketed tag strings - with the whole "
      "payload region symbolic, n = 16..36): all "
      "2^(8n) buffers symbolic at once in an exact-size object; these are reported as bounded, not as proved.",
      "Trusted: CBMC and its SAT back end, CBMC's isprint model, LP64 bit-vector semantics, -DNDEBUG as shipped. Termination of the one "
      "loop `while(toparse)` is only covered by unwinding assertions inside the bound. Reference decoder is lenient (padding content ignored, "
      "unknown tags carry no payload).",
      "CBMC function+loop contracts (dfcc) on real C code; bounded exhaustive symbolic buffers vs spec decoder", "DESIGN.md section 6 / C07")

claim("C01", "model_checking",
      "Bounded, exhaustive per shape: for every generated shape (tag string, address, string/blob lengths: 325 shapes quick, ~4500 thorough "
      "incl. all tag strings of length <=2 over the 17 symbols, all of length 3 over class representatives, random strings up to 40 tags) "
      "and for ALL numeric payload bit patterns, MIDI/blob bytes and capacities, the argument-array and varargs constructors produce exactly "
      "spec_encode() (an executable OSC 1.0 specification written from the statement), the length function agrees, the validator accepts, and "
      "argument_string/narguments/type/argument/iterator return the original types and bit-identical values. Not a proof: CBMC loop "
      "contracts cannot carry the recursive encoding spec, so tag strings are enumerated, not quantified.",
      "Trusted: CBMC + SAT back end, its va_list/memset models, spec/osc_spec.h, LP64, -DNDEBUG. String bytes fixed pattern except in the "
      "_sym shapes; varargs 'f' NaNs excluded. rtosc_avmessage: see level text once its obligation is listed in evidence.",
      "CBMC bounded verification of the real rtosc.c against an executable spec, shapes enumerated, payloads symbolic", "DESIGN.md section 6 / C01")
claim("C02", "model_checking",
      "Same shape family as C01 and bundle family as C08, with the destination an exact-size heap object of SYMBOLIC capacity 0..need+8: "
      "no write outside [buffer,buffer+len) (CBMC pointer checks), does-not-fit => returns 0 and zero-filled, fits => exact size, NULL "
      "buffer => size needed. Exhaustive over capacities and payloads inside each shape; bounded over shapes.",
      "Trusted: as C01. Callers with literal capacities (RtData::reply/broadcast) are not covered by a proof.",
      "CBMC bounded verification, exact-size destination objects, symbolic capacity", "DESIGN.md section 6 / C02")
claim("C08", "model_checking",
      "Bounded, exhaustive per element sequence (0..3 elements from 6 element kinds incl. bundles nested to depth 2; payload bytes, all 2^64 "
      "time tags, capacity symbolic): rtosc_bundle output == spec_bundle byte for byte; bundle_p/elements/fetch/size/timetag/"
      "message_length read everything back exactly; messages are never mistaken for bundles. One known finding is listed "
      "(nested bundle element in an exact-size buffer).",
      "Trusted: CBMC + SAT back end, its va_list/memcpy/strcpy/strcmp models, spec/osc_spec.h. 8 elements / depth 3-4 not explored.",
      "CBMC bounded verification of rtosc_bundle* against spec_bundle", "DESIGN.md section 6 / C08")

claim("C14", "proof",
      "The REAL macro bodies of include/rtosc/port-sugar.h (rParamCb, rParamICb, rParamFCb, rToggleCb, rOptionCb incl. symbol form, "
      "rArrayFCb/ICb/TCb/OptionCb, rStringCb) are compiled by CBMC's C++ front end as bodies of named functions (rBOIL_BEGIN regenerated "
      "from the header text by two must-fire substitutions on every run) and checked loop-free over the FULL value domain (all 2^32 ints / "
      "all non-NaN floats, every declared min/max or none, every previous value): stored value == spec clamp, query replies the stored "
      "value and assigns nothing, a set broadcasts the new value, exactly one /undo_change iff the value changed carrying address, true "
      "previous value and new value with the port's type tags, array forms touch only the addressed element (ghost index). rStringCb is "
      "the one bounded obligation (declared length 8, incoming text <= 11 symbolic bytes).",
      "Collaborators (rtosc_argument*, prop[min/max], atoi/atof, enum_key, RtData::reply/broadcast) are harness-side contracts (listed in "
      "evidence assumptions); the std::function/lambda wrapper is dropped; C++ harness has no native replay driver (violations print "
      "no-failing-input-found; defects are shown natively by findings/c14_*.cpp); enum-backed options, rCOptionCb, rParamsCb not covered.",
      "CBMC C++ front end on the real port-sugar.h macro bodies, loop-free full-domain symbolic execution against a clamp spec", "DESIGN.md section 6 / C14")

claim("C06", "proof",
      "What contracts can decide of a two-thread property: the SEQUENTIAL contract of every ring operation (ring_read_size, "
      "ring_write_size, ring_read_vector, ring_write, ring_read) and of ThreadLink::hasNext/raw_write/writeArray/read on the text of "
      "thread-link.cpp extracted mechanically on every run, for all ring sizes 2..2^30, all index values and all lengths: index "
      "arithmetic, well-formedness preserved, frames (the writer assigns only `write` and buffer bytes, the reader only `read`/"
      "`read_lookahead` and its destination), queued bytes undisturbed by a write (ghost position), a message that exceeds the free "
      "space or MaxMsg is dropped whole, lookahead reads leave `read` alone and a normal read resynchronises the lookahead, hasNext "
      "false iff the view is empty; the copy-before-publish / copy-before-release ORDER (memcpy wrapper asserting the index still has "
      "its entry value); three stale-snapshot lemmas making each side's contract stable under the other side's actions. Content clauses "
      "(view' = view||data, dst = view prefix) are bounded by ring size (16 quick / 256 thorough; plus 8 in the order_small variants). The composition to 'lossless FIFO "
      "under every interleaving' is a PAPER STEP (single producer/consumer + seq_cst atomics), supported by a must-fire static fact "
      "that the three indices are std::atomic with no weaker memory order named.",
      "Interleavings are not enumerated and atomicity is dropped by the extraction (std::atomic<off_t> -> off_t): this is a proof of "
      "the per-operation contracts and order obligations, not of linearizability. Codec callees enter through assumed contracts "
      "(proved under C01/C02/C07); ThreadLink::read relies on 'queued messages <= MaxMsg', the guarantee proved for every writer operation.",
      "CBMC function contracts (dfcc) on mechanically extracted ring/ThreadLink code; ghost-offset content clauses; order assertions; rely/guarantee on paper",
      "DESIGN.md section 6 / C06")

claim("C03", "other",
      "An effects contract 'alloc_free & lock_free' per function, discharged function by function on call graphs built from the working "
      "tree on every run: every direct callee of a function on the message path must satisfy the same contract or be on a leaf allow-list; "
      "the closure is the induction and it quantifies over code, so it holds for every message. Graphs: (a) object code of ports.cpp, "
      "thread-link.cpp, rtosc.c, dispatch.c and an instantiation of every port-sugar callback kind, compiled with the shipped flags "
      "(objdump -dr: direct calls, jumps and every relocation against a function symbol); (b) goto-binary call graph of the C layer "
      "(goto-instrument --call-graph). Entries: all functions of rtosc.c/dispatch.c, Ports::dispatch, RtData::reply/broadcast/chain/"
      "forward, ThreadLink::write/writeArray/raw_write/read*/hasNext*, the std::function handlers of the sugar callbacks. Forbidden: "
      "malloc family, operator new/delete, std::string/vector/map members, mutexes, exception allocation. This is a static effects "
      "analysis in the spirit of a frame clause, NOT a CBMC proof (CBMC cannot parse the C++ TUs), hence category 'other'.",
      "Indirect calls through std::function are the user's callbacks (assumed RT-safe as the Ports contract documents; counted in evidence). "
      "Compiler emits every call as call/jump/relocation. Construction/destruction are outside the property.",
      "effects contract closed over object-code and goto-binary call graphs", "DESIGN.md section 6 / C03")

claim("C16", "proof",
      "Scalars are PROVED over the full value domain (loop-free harnesses, every bit pattern of i c r h t f d m T F N I, NaN excluded): "
      "sign(rtosc_arg_vals_cmp_single) == spec_sign and rtosc_arg_vals_eq_single == (spec_sign == 0), in both directions and across "
      "different tags; the order laws (reflexive, antisymmetric, transitive, 0 iff equal) are proved of the spec and of the code's own "
      "results on scalars. Composites are BOUNDED (listed separately in evidence): strings/blobs of 0..3 symbolic bytes incl. NULL "
      "strings, arrays of 0..2 elements over all element-type pairs (thorough: all 120 pairs), lists of <= 3 expanded values with "
      "range blocks (rep_num 1..3, with/without delta) compared with their expansion and re-compression (eq == 1, cmp == 0, same sign "
      "against a third list), iteration yields the expansion, rtosc_avmessage of both forms byte-identical.",
      "Trusted: CBMC + SAT back end, its memcmp/strcmp models, spec/cmp_spec.h. Default options only (tolerance 0); NaN excluded; no "
      "nested arrays; no infinite ranges; start+j*delta stays inside the type. The bounded obligations say nothing beyond their bound.",
      "CBMC loop-free full-domain proofs for scalars + bounded exhaustive obligations for composites, against an executable order spec",
      "DESIGN.md section 6 / C16")

claim("C05", "model_checking",
      "Bounded, exhaustive per generated pattern: rtosc_match(pattern, message) agrees with spec_match (an executable reading of the "
      "statement with full backtracking, cross-checked natively against an independent recursive matcher on 2e9 triples) for 334 (quick) / "
      "~1250 (thorough) well-formed patterns from the grammar (literals, #N, {a,b,..}, trailing '/', ':types' alternatives) x EVERY address "
      "of 0..4 (thorough 0..5) bytes over all non-NUL bytes x every type string of 0..3 tags; indices with every digit symbolic (N-1/N/N+1, "
      "leading zeros, up to 9 digits) for 8 values of N x 4 pattern shapes; exact-size messages for out-of-bounds reads of the type matcher. "
      "PROVED for strings of any length (1..4096, loop contracts): memory safety, frame, forward-only cursors and termination of "
      "rtosc_match_number and of rtosc_match_path (callees by contract). One known finding (alternatives that are a proper prefix of "
      "another are not backtracked) is listed and matched by a tag computed from the pattern, so every other disagreement is still a violation.",
      "Trusted: CBMC + SAT (CaDiCaL for two obligations), its atoi/isdigit models (atoi by assumed contract in the proofs), "
      "spec/pattern_spec.h. rtosc_match_options is bounded (strings <= 12/24 bytes: its `goto retry` back edge cannot carry a loop contract) "
      "and its contract is assumed beyond that in the path proof; rtosc_match_args (recursive) is bounded. wf_pattern excludes forms the "
      "statement leaves ambiguous (another #N or an empty/digit-led alternative directly after #N; * ? [ ]).",
      "CBMC bounded verification of dispatch.c against an executable pattern spec + function/loop contracts for safety and termination",
      "DESIGN.md section 6 / C05")
claim("C17", "model_checking",
      "On the metadata reader of ports.cpp/ports.h, extracted mechanically to C on every run (metaiterator_advance, MetaIterator ctor/"
      "operator++, MetaContainer begin/end/find/length/operator[], Port::meta): PROVED for any block length <= 2^16 - scan safety, frame, "
      "termination, result ranges (SAT, quantifier-free contracts) and exact landing of operator++ on the next entry / exact length() (cvc5, "
      "quantified 'no NUL inside key/value'); BOUNDED, one obligation per block shape (247 quick / 1158 thorough shapes: 1..4 entries "
      "exhaustively in every with/without/empty-value order, 5..8 entries sampled; bytes symbolic over {a b : = space 1}): iteration yields "
      "exactly the ghost key/value arrays in order, operator[] returns the first entry's value or NULL, find reports presence, length is the "
      "block length incl. terminator; blocks produced by the real rMap/rProp/rDoc/rOptions macros (bytes obtained from g++ on port-sugar.h "
      "on every run) are well formed and decode to the pairs the macros name.",
      "Trusted: CBMC, SAT, cvc5 for the quantified contract set; extraction rules (method, ref-param, ctor-init, temp-ctor, range-for "
      "desugaring, struct-lift) listed in evidence. Inside find/operator[] the calls of operator++ are replaced by its view contract "
      "(asserted of the real operator++ in the same run and cross-checked on small shapes with the real one). Keys do not start with ':'.",
      "CBMC contracts (SAT + cvc5) on mechanically extracted C++ leaf functions; bounded shape-enumerated obligations against a ghost view",
      "DESIGN.md section 6 / C17")
claim("C18", "model_checking",
      "PARTIAL: only the first sentence of the property (collapsePath) is in reach; lookup by address (Ports::apropos / operator[]) and "
      "child search (path_search) are STL/lambda code and are NOT covered - a change there is not detected by this check. For "
      "Ports::collapsePath and its helpers parent_path_p / read_path / move_path (extracted mechanically to C on every run): PROVED for "
      "any NUL-terminated absolute path <= 2^16 bytes - in-place safety (reads/writes only p[0..len], byte before p and terminator "
      "untouched), result inside the same buffer, termination of all four loops (helpers by contract); BOUNDED - result string == "
      "spec_collapse (component stack written from the statement) for EVERY absolute path of 2..12 bytes (quick) / 2..16 (thorough) over "
      "{'/','.','a','b'}, plus paths of up to 5 / 8 two-byte components each '..' or ordinary ('..' at every position).",
      "Trusted: CBMC + SAT; extraction rules (ref-param, method-static) listed in evidence. CBMC cannot model the one-before-begin pointer "
      "the code forms: the function is handed base+1 of a larger object and base[0] is asserted untouched.",
      "CBMC function/loop contracts + bounded exhaustive strings on mechanically extracted C++ leaf functions", "DESIGN.md section 6 / C18")

claim("C19", "proof",
      "PARTIAL (learn queue, controller binding and the linear mapping; createBinding's metadata parsing and the log scale are out of "
      "reach). History claims are decided by INDUCTION OVER OPERATIONS on AutomationMgr's methods, extracted mechanically to C on every "
      "run: a representation invariant (learn_queue_len = k, the waiting slots hold the ranks 1..k once each, all others -1; no two slots "
      "bound to one controller / NRPN; NRPN registers in range) holds after the real constructor (native exhaustive base case over all 18 "
      "configurations) and is preserved by every operation, and each operation performs the abstract transition the statement demands - "
      "clearSlot removes exactly that slot from the queue, an unbound controller (CC or complete NRPN) binds the HEAD of the queue and "
      "pops it, a bound controller drives exactly its slot(s) and leaves the queue alone, enqueue appends, setSlot/setSlotSub/updateMapping/"
      "clearSlotSub/gain/offset do not touch learning, queue length or controller fields. Over the property's whole configuration space "
      "(nslots 1..6 x per_slot 1..3, symbolic in one obligation; thorough: each configuration with exact-size objects) with every field "
      "symbolic under the invariant, so the unwinding is complete and the obligations count as proved. Emitted message: address == "
      "param_path, type == param_type, value inside [min,max] (true/false for toggles), b >= a for gain >= 0, exact end points at the "
      "defaults (thorough). Monotonicity in the slot value and float linearity are UNDECIDED (two coupled multipliers; not claimed).",
      "Trusted: CBMC + kissat; extraction rules (method, auto-ref, struct-lift, tail-cut of createBinding's two learn-queue lines) in "
      "evidence; rtosc_message replaced by a recorder (contract decided under C01), snprintf by a size-checking stub, setSlot by its own "
      "proved contract inside handleMidi. MIDI domain channel 0..15, controller/value 0..127; numeric domain of the mapping stated in evidence.",
      "induction over operations: representation invariant + per-operation transition contracts, CBMC on mechanically extracted methods",
      "DESIGN.md section 6 / C19")

NA["C04"] = "Dispatch, the perfect-hash construction and the callbacks are C++ over std::vector<Port>, std::string, std::function with range-for/lambdas; CBMC's C++ front end rejects the TU and has no contract syntax in C++ mode; the only C ingredient, rtosc_match, is decided under C05."
NA["C09"] = "walk_ports/walk_ports_recurse/bundle_foreach/port_is_enabled take Ports&, iterate std::vector, call std::function ports and snprintf into the shared buffer; no C-extractable core carries the statement."
NA["C10"] = "The printer and scanner are snprintf(\"%a\"), strftime, sscanf, localtime: libc text conversion of floats and dates, which CBMC neither models nor can be given a contract that decides round-tripping."
NA["C11"] = "Agreement of two hand-written recognisers over text whose tokens are classified by sscanf format probes; no string theory and no sscanf semantics in the verifier."
NA["C12"] = "Save/load is a pipeline through std::string, std::vector, std::set, std::map, std::function port callbacks, varargs capture and the printf/scanf-bound printer/scanner."
NA["C13"] = "scan_deps and the Kahn sort operate on std::map<std::string,message_t*>, std::vector, std::queue with lambdas; out of reach of CBMC's C++ front end."
NA["C15"] = "State is a std::deque<pair<time_t,const char*>> of heap messages driven through std::function and time(); verifying it would mean proving a hand-written stand-in for the container (a model, a different family)."
NA["C20"] = "std::map<std::string, std::tuple<...>>, std::deque, TinyVector templates, capturing lambdas stored in std::function; float bijection; out of reach of contracts CBMC can check."
