#!/usr/bin/env python3
"""Self-test helper: apply a patch (or a python-style 'file::old::new' replacement) to a scratch worktree of /repo
(outside /repo and /verif), run ./check <prop> against it, print the verdict, remove the worktree.
usage: mutest.py <prop> <patch.diff | file::old::new> [--only glob] [--tier quick]"""
import sys, os, subprocess, tempfile, shutil
prop, mut = sys.argv[1], sys.argv[2]
extra = sys.argv[3:]
wt = tempfile.mkdtemp(prefix="wt-mut-", dir="/var/tmp")
os.rmdir(wt)
subprocess.run(["git", "-C", "/repo", "worktree", "add", "-f", "--detach", wt, "HEAD"], check=True, stdout=subprocess.DEVNULL, stderr=subprocess.DEVNULL)
try:
    if "::" in mut:
        f, old, new = mut.split("::", 2)
        p = os.path.join(wt, f); s = open(p).read()
        if s.count(old) < 1:
            print("MUTATION DID NOT APPLY"); sys.exit(3)
        open(p, "w").write(s.replace(old, new, 1))
    else:
        subprocess.run(["git", "-C", wt, "apply", os.path.abspath(mut)], check=True)
    env = dict(os.environ, VERIF_REPO=wt)
    r = subprocess.run([os.path.join(os.path.dirname(os.path.abspath(__file__)), "..", "check"), prop] + extra, env=env,
                       stdout=subprocess.PIPE, stderr=subprocess.STDOUT, text=True)
    lines = [l for l in r.stdout.splitlines() if l.startswith(("VIOLATION", "UNDECIDED", "PROOF-DEGRADED", "KNOWN", prop))]
    print("\n".join(l[:260] for l in lines[:40]))
    print("exit", r.returncode)
finally:
    subprocess.run(["git", "-C", "/repo", "worktree", "remove", "--force", wt], stdout=subprocess.DEVNULL, stderr=subprocess.DEVNULL)
    shutil.rmtree(wt, ignore_errors=True)
