#!/usr/bin/env python3
"""Render the seeded-changes table (DESIGN section 14) from seeded/*/meta.json and the logs of the final sweep."""
import json, glob, os, re, sys
logdir = sys.argv[1] if len(sys.argv) > 1 else os.path.join(os.path.dirname(os.path.dirname(os.path.abspath(__file__))), "seeded", "_final_sweep_logs")
NOTES = {
 "C02-bundle-precheck-bounded-by-len": "first missed (exit 2: with the capacity fed into the element scan every loop exit is symbolic and the symbolic-capacity obligations time out); caught since the concrete-capacity family `C02.bundle_cap.*` was added",
 "C06-ring_write-two-step-publication": "first missed (exit 2: the chunked copy loop has no loop contract, the unbounded obligations cannot finish); caught since `C06.ring_write.order_small` (bounded, ring <= 8) and the native schedule demonstration `C06.schedule.copy_points` were added",
 "C06-read_vector-reloads-write-index": "invisible to sequential contracts (the two loads are algebraically equal); caught by the interference obligations added for it (`C06.interference.read_vector`: the other side moves its index at every load)",
 "C08-element-length-signed-char": "first missed (all elements were < 128 bytes); caught since the 132-byte element kind KG was added",
 "C08-bundle_size-via-message-length": "first reported exit 2 (FAILURE next to UNKNOWN statuses was treated as undecided); vlib now lets failures take precedence",
 "C14-option-numeric-form-unclamped": "first exit 2 (the variant calls the library helper enum_key_from_msg, which had no collaborator contract); caught since that contract was added",
 "C14-rLIMIT-max-needs-min": "MISS by tool limit: CBMC's C++ front end aborts (invariant violation) on the declaration-in-condition `if(const char *min_ = ...)` the variant introduces; the check exits 2 (undecided), not 1",
 "C16-cmp-null-string-as-empty": "first missed (cmp of NULL vs string was not asserted because the code orders raw pointers); caught since `C16.string.*.null_cmp_nonzero` (pointer checks off) was added",
 "C18-path_search-unique-prefix-le": "MISS by design: the child-search clause of C18 is STL/lambda code outside the reach of this technique (C18 is claimed for collapsePath only)",
 "C18-read_path-skips-two-chars": "first exit 2 (the extraction rule counted the USES of the reference parameter, which is not a shape property); the use-count rules now accept any count >= 1",
 "C18-move_path-tests-write-cursor": "first exit 2 for the same reason as the read_path seed",
 "C07-arg_off-brackets-consume-index": "first MISSED (exit 0): C07's families had no array brackets in the middle of a tag string within their bounds; caught since bracketed tag strings (`i[ii]`, `s[ib]`, `[b]i`, `[i]h[T]s`) were added to `C07.accept_structured.*` (C01's shape family already caught it)",
 "C08-bundle-partial-clear-off-by-one": "first MISSED (exit 0): the decomposition obligations measured a copy of the expected bytes, never the PRODUCED buffer with its capacity as bound and stale content behind the bundle; caught since `C08.bundle_in_place.*` was added",
 "C05-match_number-strtoul-base0": "first exit 2 (the variant removes the loops the loop contracts attach to; injection failure aborted the whole check); injection failure is now local to the proof obligations and the bounded `C05.index.*` family decides it",
}
print("| seeded change (directory under `seeded/`) | what it needs to manifest | final check result | caught by | note |")
print("|---|---|---|---|---|")
for d in sorted(glob.glob(os.path.join(os.path.dirname(os.path.dirname(os.path.abspath(__file__))), "seeded/*/meta.json"))):
    m = json.load(open(d)); n = m["name"]
    log = os.path.join(logdir, n + ".log")
    res, fam = "(not run)", ""
    if os.path.exists(log):
        t = open(log).read()
        v = re.findall(r"^VIOLATION .*?obligation=(\S+)", t, re.M)
        ex = re.findall(r"^exit (\d)", t, re.M)
        u = len(re.findall(r"^UNDECIDED", t, re.M))
        fams = sorted(set(".".join(x.split(".")[:2]) for x in v))
        res = "exit %s (%d+ VIOLATION lines%s)" % (ex[-1] if ex else "?", len(v), ", %d undecided" % u if u else "")
        fam = ", ".join("`%s.*`" % f for f in fams[:4])
    print("| `%s` | %s | %s | %s | %s |" % (n, m["needs_to_manifest"].replace("|", "/"), res, fam, NOTES.get(n, "")))
