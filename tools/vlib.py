#!/usr/bin/env python3
"""Core of the /verif machinery: obligations, the goto-cc -> goto-instrument -> cbmc
pipeline, verdict classification, counterexample replay and evidence writing.

Everything is rebuilt from the working tree of $VERIF_REPO (default /repo) on every run.
Exit codes of a check: 0 held / 1 VIOLATION / 2 infrastructure or undecided.
"""
import os, sys, re, json, time, shutil, subprocess, tempfile, threading, fnmatch, hashlib
from concurrent.futures import ThreadPoolExecutor, as_completed

VERIF = os.path.dirname(os.path.dirname(os.path.abspath(__file__)))
REPO = os.environ.get("VERIF_REPO", "/repo")
JOBS = int(os.environ.get("VERIF_JOBS", "14"))

# CBMC property-id fragments that are *auxiliary* proof steps (not statements of the
# property): failing only these means "proof degraded", not "violation".
AUX_PATTERNS = [
    r"\.loop_invariant_base\.", r"\.loop_invariant_step\.", r"\.loop_step_unwinding\.",
    r"\.loop_decreases\.", r"loop_assigns", r"\.loop_invariant\.",
]
UNWIND_PAT = r"\.unwind\.\d+$|unwinding assertion"


class Obl:
    """One named proof obligation."""
    def __init__(self, name, prop, harness, entry="harness", enforce=None, replace=(),
                 loops=False, defines=None, cbmc=(), mode="proof", bound="",
                 timeout=900, mem_gb=8, includes=(), srcs=(), termination=False,
                 functions=(), replayable=None, note="", cxx=False, assumed=(),
                 instr=(), nondet_static=False, solver=None, case=None, canary=False):
        self.name, self.prop, self.harness, self.entry = name, prop, harness, entry
        self.enforce, self.replace, self.loops = enforce, list(replace), loops
        self.defines = dict(defines or {})
        self.cbmc, self.mode, self.bound = list(cbmc), mode, bound
        self.timeout, self.mem_gb = timeout, mem_gb
        self.includes, self.srcs = list(includes), list(srcs)
        self.termination = termination          # decreases/unwinding failures are property-level
        self.functions = list(functions)        # real functions this obligation puts under contract
        self.replayable = (mode != "proof") if replayable is None else replayable
        self.note, self.cxx, self.assumed = note, cxx, list(assumed)
        self.instr = list(instr)
        self.solver = solver
        self.case = case                        # generated-family case description (for evidence samples)
        self.canary = canary                    # vacuity guard: compiled with -DVERIF_CANARY, every V_COVER must be reachable
        if canary:
            self.defines["VERIF_CANARY"] = None


class Result:
    def __init__(self, obl):
        self.obl = obl
        self.status = "error"     # pass | fail | degraded | timeout | error
        self.n_props = 0
        self.failed = []          # [(property id, description)]
        self.aux_failed = []
        self.wall = 0.0
        self.solver_s = 0.0
        self.log = ""
        self.detail = ""
        self.replay = None        # path of replay file
        self.reproduced = None
        self.known = None


class Ctx:
    def __init__(self, prop, tier, seed):
        self.prop, self.tier, self.seed = prop, tier, seed
        base = os.environ.get("VERIF_TMP") or "/var/tmp"
        os.makedirs(base, exist_ok=True)
        self.scratch = tempfile.mkdtemp(prefix="verif-%s-" % prop, dir=base)
        self.repo = REPO
        self.logs = os.path.join(self.scratch, "logs")
        os.makedirs(self.logs)
        self.inj = os.path.join(self.scratch, "inj")     # working-tree files + injected loop contracts
        self.ext = os.path.join(self.scratch, "ext")     # mechanically extracted C
        os.makedirs(self.inj); os.makedirs(self.ext)
        self.notes = []          # infrastructure notes for evidence (rule logs, fingerprints)
        self.infra_errors = []

    def cleanup(self):
        if os.environ.get("VERIF_KEEP"):
            print("scratch kept:", self.scratch)
            return
        shutil.rmtree(self.scratch, ignore_errors=True)


def sh(cmd, timeout, mem_gb, cwd=None, out=None):
    """Run cmd under a virtual-memory limit and a timeout. Returns (rc, stdout+stderr, seconds)."""
    t0 = time.time()
    limit_kb = int(mem_gb * 1024 * 1024)
    pre = "ulimit -v %d; exec \"$@\"" % limit_kb
    try:
        p = subprocess.run(["bash", "-c", pre, "sh"] + cmd, cwd=cwd, stdout=subprocess.PIPE,
                           stderr=subprocess.STDOUT, timeout=timeout)
        txt = p.stdout.decode("utf-8", "replace")
        rc = p.returncode
    except subprocess.TimeoutExpired as e:
        txt = (e.stdout or b"").decode("utf-8", "replace") + "\n[TIMEOUT after %ds]" % timeout
        rc = -999
    if out:
        with open(out, "w") as f:
            f.write("$ " + " ".join(cmd) + "\n" + txt)
    return rc, txt, time.time() - t0


def base_flags(ctx, obl):
    fl = ["-DNDEBUG", "-D__NO_CTYPE", "-DRTOSC_VERIF", "-DVERIF_CBMC",
          "-I", os.path.join(ctx.repo, "include"), "-I", os.path.join(VERIF, "contracts"),
          "-I", os.path.join(VERIF, "spec"), "-I", os.path.join(VERIF, "harness"),
          "-I", ctx.inj, "-I", ctx.ext, "-I", os.path.join(ctx.repo, "src")]
    for i in obl.includes:
        fl += ["-I", i]
    for k, v in obl.defines.items():
        fl.append("-D%s=%s" % (k, v) if v is not None else "-D%s" % k)
    return fl


CBMC_BASE = ["--no-malloc-may-fail", "--no-signed-overflow-check", "--max-field-sensitivity-array-size", "1024"]


def run_obligation(ctx, obl, want_trace=False, trace_props=()):
    r = Result(obl)
    t0 = time.time()
    tag = re.sub(r"[^A-Za-z0-9_.-]", "_", obl.name)
    wd = os.path.join(ctx.scratch, "o", tag + ("-trace" if want_trace else ""))
    os.makedirs(wd, exist_ok=True)
    log = os.path.join(ctx.logs, tag + (".trace" if want_trace else "") + ".log")
    r.log = log
    hsrc = os.path.join(VERIF, obl.harness)
    gb1 = os.path.join(wd, "a.gb"); gb2 = os.path.join(wd, "b.gb")
    cc = ["goto-cc", "--function", obl.entry] + base_flags(ctx, obl) + [hsrc] + obl.srcs + ["-o", gb1]
    rc, txt, _ = sh(cc, 300, 8, out=log + ".cc")
    if rc != 0:
        r.status, r.detail = "error", "goto-cc failed: " + txt[-1500:]
        r.wall = time.time() - t0
        return r
    use_instr = obl.enforce or obl.replace or obl.loops or obl.instr
    if use_instr:
        gi = ["goto-instrument", "--dfcc", obl.entry]
        if "--no-malloc-may-fail" not in obl.instr:
            gi += ["--no-malloc-may-fail"]
        if obl.enforce:
            gi += ["--enforce-contract", obl.enforce]
        for f in obl.replace:
            gi += ["--replace-call-with-contract", f]
        if obl.loops:
            gi += ["--apply-loop-contracts"]
        gi += obl.instr
        gi += [gb1, gb2]
        rc, txt, _ = sh(gi, 600, 8, out=log + ".gi")
        if rc != 0:
            r.status, r.detail = "error", "goto-instrument failed: " + txt[-1500:]
            r.wall = time.time() - t0
            return r
    else:
        gb2 = gb1
    cb = ["cbmc", gb2, "--json-ui", "--verbosity", "6"] + CBMC_BASE
    have_ob = any(a.startswith("--object-bits") for a in obl.cbmc)
    if not have_ob:
        cb += ["--object-bits", "10"]
    cb += obl.cbmc
    if obl.solver:
        cb += obl.solver.split() if obl.solver.startswith("--") else ["--external-sat-solver", obl.solver]
    if obl.canary and "--drop-unused-functions" not in cb:
        cb += ["--drop-unused-functions"]      # cover goals of other entry points in the same TU are not ours
    if want_trace:
        cb += ["--trace"]
        for tp in trace_props:
            cb += ["--property", tp]
    tmo = int(obl.timeout * float(os.environ.get("VERIF_TIMEOUT_SCALE", "1.5")))   # head-room for a loaded machine
    rc, txt, secs = sh(cb, tmo, obl.mem_gb, out=log)
    r.wall = time.time() - t0
    if rc == -999:
        r.status, r.detail = "timeout", "cbmc exceeded %ds" % tmo
        return r
    i = txt.find("[")
    try:
        # the log starts with the "$ cmd" line we did not write into txt; txt is pure cbmc output
        data = json.loads(txt[i:])
    except Exception:
        r.status, r.detail = "error", "cbmc output not parseable (rc=%s): %s" % (rc, txt[-800:])
        return r
    results = None
    for item in data:
        if isinstance(item, dict):
            if "result" in item:
                results = item["result"]
            mt = item.get("messageText", "")
            m = re.search(r"Runtime decision procedure: ([0-9.]+)s", mt) or \
                re.search(r"Runtime Solver: ([0-9.]+)s", mt)
            if m:
                r.solver_s += float(m.group(1))
            if item.get("messageType") == "ERROR":
                r.detail += mt[:400] + "\n"
            if "ignoring forall" in mt or "ignoring exists" in mt:
                r.detail += "QUANTIFIER IGNORED: " + mt[:200] + "\n"
    if results is None:
        r.status = "error"
        r.detail += "no result section (rc=%s): %s" % (rc, txt[-800:])
        return r
    r.n_props = len(results)
    r.raw_results = results
    odd = []
    for pr in results:
        if pr.get("status") == "FAILURE":
            r.failed.append((pr.get("property", "?"), pr.get("description", "")))
        elif pr.get("status") != "SUCCESS":
            odd.append("%s=%s" % (pr.get("property", "?"), pr.get("status")))
    if any(isinstance(it, dict) and it.get("cProverStatus") == "error" for it in data):
        odd.append("cProverStatus=error")
    if odd and not want_trace and not r.failed and not obl.canary:
        # no property failed, but some were left undecided (solver "unknown", paths cut off): not a pass
        r.status = "error"
        r.detail += "undecided cbmc properties (solver answered unknown / error): " + ", ".join(odd[:6])
        return r
    if "QUANTIFIER IGNORED" in r.detail:
        r.status = "error"
        return r
    if obl.canary and not want_trace:
        can = [pr for pr in results if pr.get("description", "").startswith("CANARY reachable")]
        unreached = [pr.get("description") for pr in can if pr.get("status") != "FAILURE"]
        r.failed = []
        if not can:
            r.status, r.detail = "error", "canary obligation without V_COVER goals"
        elif unreached:
            r.status, r.detail = "error", "VACUOUS: cover goals not reachable: " + "; ".join(unreached[:5])
        else:
            r.status = "pass"
        return r
    if not r.failed:
        r.status = "pass" if r.n_props > 0 else "error"
        if r.n_props == 0:
            r.detail += "zero properties generated (vacuous)"
    else:
        r.status = "fail"
    return r


def classify(obl, failed):
    """Split failed cbmc properties into (property_level, auxiliary, unwinding)."""
    plevel, aux, unw = [], [], []
    for pid, desc in failed:
        if re.search(UNWIND_PAT, pid) or "unwinding assertion" in desc:
            (plevel if obl.termination else unw).append((pid, desc))
        elif any(re.search(p, pid) for p in AUX_PATTERNS) or \
                re.search(r"loop invariant|decreases clause|loop variant", desc):
            if obl.termination and re.search(r"decreases|(?<!in)variant", pid + " " + desc):
                plevel.append((pid, desc))
            else:
                aux.append((pid, desc))
        else:
            plevel.append((pid, desc))
    return plevel, aux, unw


# --------------------------------------------------------------------------- replay

def _c_value(v):
    """CBMC json value tree -> C initializer text."""
    n = v.get("name")
    if n == "struct":
        parts = []
        for m in v["members"]:
            if m["name"].startswith("$pad"):
                continue
            parts.append(".%s = %s" % (m["name"], _c_value(m["value"])))
        return "{ " + ", ".join(parts) + " }"
    if n == "array":
        els = sorted(v["elements"], key=lambda e: e["index"])
        return "{ " + ", ".join(_c_value(e["value"]) for e in els) + " }"
    if n == "union":
        # initialise through the raw bytes is not portable; take first member
        m = v.get("member") or (v.get("members") or [None])[0]
        if m:
            return "{ .%s = %s }" % (m["name"], _c_value(m["value"]))
        return "{0}"
    if n in ("integer", "boolean", "float", "unknown") or "binary" in v:
        b = v.get("binary")
        if b is None:
            return "0"
        w = len(b)
        u = int(b, 2)
        ty = v.get("type", "")
        if n == "float":
            raise ValueError("float member in IN struct; use bit-pattern members")
        if "unsigned" in ty or ty.startswith("uint") or ty in ("_Bool", "bool", "size_t", "__CPROVER_size_t"):
            return "%dU%s" % (u, "LL" if w > 32 else "")
        if u >= 1 << (w - 1):
            u -= 1 << w
        if w > 32:
            return "(%dLL)" % u if u > -(1 << 63) else "(-9223372036854775807LL-1)"
        return "(%d)" % u
    if n == "pointer":
        return "0"
    return "0"


def extract_inputs(trace):
    last = None
    for st in trace:
        if st.get("stepType") == "assignment" and st.get("lhs") == "IN" and "value" in st:
            last = st["value"]
    return last


def portable_defines(ctx, defines):
    """Replay files must not depend on scratch paths: paths below the checked tree / the injected / extracted dirs are
    stored with markers, other generated files (e.g. a shape header) are embedded."""
    out, emb = {}, {}
    for k, v in defines.items():
        if isinstance(v, str) and len(v) > 2 and v[0] == '"' and v[-1] == '"' and v[1] == "/":
            path = v[1:-1]
            for marker, root in (("@INJ@", ctx.inj), ("@EXT@", ctx.ext), ("@REPO@", ctx.repo)):
                if path.startswith(root + "/"):
                    v = '"%s%s"' % (marker, path[len(root):]); break
            else:
                if path.startswith(ctx.scratch + "/") and os.path.isfile(path):
                    emb[k] = {"name": os.path.basename(path), "content": open(path).read()}
                    v = '"@EMBEDDED@/%s"' % os.path.basename(path)
        out[k] = v
    return out, emb


def resolve_defines(ctx, doc, wd):
    out = {}
    for k, v in (doc.get("defines") or {}).items():
        if isinstance(v, str):
            v = v.replace("@INJ@", ctx.inj).replace("@EXT@", ctx.ext).replace("@REPO@", ctx.repo).replace("@EMBEDDED@", wd)
        out[k] = v
    for k, e in (doc.get("embedded_files") or {}).items():
        with open(os.path.join(wd, e["name"]), "w") as f:
            f.write(e["content"])
    return out


def build_replay(ctx, obl, res):
    """Re-run with --trace, write the replay file, run it natively. Fills res.replay / res.reproduced."""
    rdir = os.path.join(VERIF, "evidence", "replay")
    os.makedirs(rdir, exist_ok=True)
    tag = re.sub(r"[^A-Za-z0-9_.-]", "_", obl.name)
    path = os.path.join(rdir, tag + ".json")
    pdefs, embedded = portable_defines(ctx, obl.defines)
    doc = {"obligation": obl.name, "property": obl.prop, "harness": obl.harness, "entry": obl.entry,
           "defines": pdefs, "embedded_files": embedded, "mode": obl.mode, "bound": obl.bound,
           "includes": [i.replace(ctx.inj, "@INJ@").replace(ctx.ext, "@EXT@").replace(ctx.repo, "@REPO@") for i in obl.includes],
           "failed_cbmc_properties": [{"id": a, "description": b} for a, b in res.failed],
           "inputs_c": None, "verifier_output_tail": ""}
    try:
        with open(res.log) as f:
            doc["verifier_output_tail"] = f.read()[-6000:]
    except OSError:
        pass
    if obl.replayable:
        plevel, aux, unw = classify(obl, res.failed)
        cands = sorted(plevel, key=lambda x: (0 if ".assertion." in x[0] else 1))[:3]
        attempts = []
        for pid, _ in cands:
            rt = run_obligation(ctx, obl, want_trace=True, trace_props=[pid])
            trace = None
            for pr in getattr(rt, "raw_results", []) or []:
                if pr.get("status") == "FAILURE" and "trace" in pr:
                    trace = pr["trace"]
                    break
            if trace is None:
                attempts.append({"property": pid, "trace": "none (%s)" % rt.status})
                continue
            try:
                v = extract_inputs(trace)
            except ValueError as e:
                doc["inputs_error"] = str(e); v = None
            if v is None:
                attempts.append({"property": pid, "trace": "no IN assignment"})
                continue
            cand = dict(doc, inputs_c=_c_value(v), traced_property=pid)
            rc, out = run_replay(ctx, cand)
            attempts.append({"property": pid, "native_rc": rc})
            if doc["inputs_c"] is None or rc not in (0, 4, None):
                doc.update(inputs_c=cand["inputs_c"], traced_property=pid, native_rc=rc,
                           native_output_tail=out[-3000:])
                doc["kf_tags"] = sorted(set(re.findall(r"^KF-TAG: (\S+)", out, re.M)))
            if rc not in (0, 4, None):
                break
        doc["replay_attempts"] = attempts
        if doc["inputs_c"] is not None:
            res.reproduced = doc.get("native_rc") not in (0, 4, None)
            doc["reproduced"] = res.reproduced
    elif res.failed and obl.mode != "proof-unbounded":
        # no native replay driver for this harness (C++ harness / contract-enforced entry): still record the
        # verifier's counterexample values of the input struct, if the harness has one
        try:
            plevel, aux, unw = classify(obl, res.failed)
            cands = sorted(plevel, key=lambda x: (0 if ".assertion." in x[0] else 1))[:1]
            for pid, _ in cands:
                rt = run_obligation(ctx, obl, want_trace=True, trace_props=[pid])
                for pr in getattr(rt, "raw_results", []) or []:
                    if pr.get("status") == "FAILURE" and "trace" in pr:
                        v = extract_inputs(pr["trace"])
                        if v is not None:
                            doc["verifier_counterexample_inputs_c"] = _c_value(v)
                            doc["traced_property"] = pid
                        break
        except Exception as e:      # best effort only
            doc["trace_error"] = str(e)[:200]
        doc["native_replay"] = "not available for this harness; the counterexample above is the verifier's, not replayed"
    with open(path, "w") as f:
        json.dump(doc, f, indent=1)
    res.replay = path
    return doc


def native_flags(ctx, defines, includes=()):
    fl = ["-DNDEBUG", "-DRTOSC_VERIF", "-DVERIF_REPLAY", "-g", "-O0", "-fsanitize=address,undefined",
          "-fno-sanitize=shift", "-fno-sanitize-recover=undefined", "-w",
          "-I", os.path.join(ctx.repo, "include"), "-I", os.path.join(VERIF, "contracts"),
          "-I", os.path.join(VERIF, "spec"), "-I", os.path.join(VERIF, "harness"),
          "-I", ctx.inj, "-I", ctx.ext, "-I", os.path.join(ctx.repo, "src")]
    for i in includes:
        fl += ["-I", i]
    for k, v in defines.items():
        fl.append("-D%s=%s" % (k, v) if v is not None else "-D%s" % k)
    return fl


def run_replay(ctx, doc, verbose=False):
    """Compile the same harness natively (real code from the working tree, gcc + ASan/UBSan)
    with the counterexample inputs and run it. rc 3 = oracle failed, 4 = inputs violate an
    assumption, 0 = not reproduced, other = sanitizer/crash."""
    wd = tempfile.mkdtemp(prefix="replay-", dir=ctx.scratch)
    with open(os.path.join(wd, "replay_inputs.h"), "w") as f:
        f.write("#define REPLAY_INPUTS " + doc["inputs_c"] + "\n")
    exe = os.path.join(wd, "replay")
    incs = [i.replace("@INJ@", ctx.inj).replace("@EXT@", ctx.ext).replace("@REPO@", ctx.repo) for i in doc.get("includes", [])]
    cmd = ["gcc", "-std=gnu11"] + native_flags(ctx, resolve_defines(ctx, doc, wd), incs) + \
          ["-I", wd, "-DHARNESS_ENTRY=" + doc["entry"], os.path.join(VERIF, doc["harness"]),
           os.path.join(VERIF, "harness", "replay_main.c"), "-o", exe, "-lm"]
    rc, txt, _ = sh(cmd, 300, 64)
    if rc != 0:
        return None, "native build failed:\n" + txt
    env_cmd = ["timeout", "-s", "KILL", "20", exe]
    p = subprocess.run(env_cmd, stdout=subprocess.PIPE, stderr=subprocess.STDOUT,
                       env=dict(os.environ, ASAN_OPTIONS="detect_leaks=0:abort_on_error=0:exitcode=5",
                                UBSAN_OPTIONS="halt_on_error=1:exitcode=6"))
    out = p.stdout.decode("utf-8", "replace")
    rc = p.returncode
    if rc in (-9, 137):
        out += "\n[native run killed after 20 s: does not terminate]"
        rc = 7
    return rc, out


# --------------------------------------------------------------------------- known findings

def load_known():
    kf = []
    p = os.path.join(VERIF, "known-findings.txt")
    if os.path.exists(p):
        for line in open(p):
            line = line.strip()
            if line.startswith("finding:"):
                d = dict(re.findall(r"(\w+)=(\S+)", line))
                d["text"] = line
                kf.append(d)
    return kf


def match_known(kf, obl, doc):
    """A finding matches when property and obligation glob match and (if given) its tag is among
    the KF-TAGs the native replay printed for the failing input."""
    for k in kf:
        if k.get("property") != obl.prop:
            continue
        if not fnmatch.fnmatch(obl.name, k.get("obligation", "*")):
            continue
        tag = k.get("tag")
        if tag and tag not in (doc.get("kf_tags") or []):
            continue
        return k
    return None


# --------------------------------------------------------------------------- driver

def run_check(prop, tier, seed, obligations, ctx, level, functions, assumptions, trusted,
              rule, explanation="", extra_cov=None, static_results=None):
    """Run all obligations in parallel, decide, write evidence, return exit code."""
    t0 = time.time()
    results = []
    lock = threading.Lock()
    rdir = os.path.join(VERIF, "evidence", "replay")
    if os.path.isdir(rdir):       # replay files of earlier runs of this property are stale
        for fn in os.listdir(rdir):
            if fn.startswith(prop + "."):
                os.unlink(os.path.join(rdir, fn))
    with ThreadPoolExecutor(max_workers=JOBS) as ex:
        futs = {ex.submit(run_obligation, ctx, o): o for o in obligations}
        for fu in as_completed(futs):
            o = futs[fu]
            try:
                r = fu.result()
            except Exception as e:      # infrastructure
                r = Result(o); r.status = "error"; r.detail = "exception: %r" % e
            with lock:
                results.append(r)
                if os.environ.get("VERIF_VERBOSE"):
                    print("  [%s] %s %.1fs props=%d %s" % (r.status, o.name, r.wall, r.n_props,
                                                           "; ".join(p for p, _ in r.failed[:4])), flush=True)
    results.sort(key=lambda r: r.obl.name)
    kf = load_known()
    violations, known_lines, degraded, infra = [], [], [], list(ctx.infra_errors)
    to_replay = []
    for r in results:
        o = r.obl
        if r.status in ("error", "timeout"):
            infra.append("%s: %s %s" % (o.name, r.status, r.detail.strip()[:600]))
            continue
        if r.status != "fail":
            continue
        plevel, aux, unw = classify(o, r.failed)
        r.aux_failed = aux
        if not plevel:
            if unw:
                infra.append("%s: unwinding bound too small (%s)" % (o.name, unw[0][0]))
                r.status = "error"
            else:
                r.status = "degraded"
                degraded.append((o, aux))
            continue
        to_replay.append((r, plevel))
    # counterexample -> replay file -> native run, in parallel; obligations that can match a known finding first, and a
    # budget on full replays so that a change that breaks hundreds of obligations is still reported in reasonable time
    budget = int(os.environ.get("VERIF_REPLAY_BUDGET", "24"))
    def kf_first(item):
        o = item[0].obl
        return 0 if any(k.get("property") == o.prop and fnmatch.fnmatch(o.name, k.get("obligation", "*")) for k in kf) else 1
    to_replay.sort(key=lambda it: (kf_first(it), it[0].obl.name))
    docs = {}
    def do_replay(item):
        r, _ = item
        return r.obl.name, build_replay(ctx, r.obl, r)
    full = [it for it in to_replay if kf_first(it) == 0] + [it for it in to_replay if kf_first(it) == 1][:budget]
    with ThreadPoolExecutor(max_workers=max(2, JOBS // 2)) as ex:
        for name, doc in ex.map(do_replay, full):
            docs[name] = doc
    for r, plevel in to_replay:
        o = r.obl
        if o.name not in docs:      # beyond the replay budget: the replay file names the obligation and carries the verifier output
            saved = o.replayable
            o.replayable = False
            try:
                rdir = os.path.join(VERIF, "evidence", "replay"); os.makedirs(rdir, exist_ok=True)
                path = os.path.join(rdir, re.sub(r"[^A-Za-z0-9_.-]", "_", o.name) + ".json")
                with open(path, "w") as f:
                    json.dump({"obligation": o.name, "property": o.prop, "harness": o.harness, "entry": o.entry,
                               "defines": o.defines, "mode": o.mode, "bound": o.bound, "inputs_c": None,
                               "failed_cbmc_properties": [{"id": a, "description": b} for a, b in r.failed],
                               "note": "replay budget (%d) exhausted by sibling obligations of this run; re-run with "
                                       "--only '%s' for a replayed counterexample" % (budget, o.name)}, f, indent=1)
                r.replay = path
            finally:
                o.replayable = saved
            docs[o.name] = {}
        doc = docs[o.name]
        k = match_known(kf, o, doc) if (r.reproduced or not o.replayable) else None
        if k:
            r.known = k
            known_lines.append("KNOWN-FINDING: %s" % k["text"].split(" ", 1)[1])
            continue
        suffix = "" if r.reproduced else " no-failing-input-found"
        violations.append("VIOLATION property=%s replay=%s obligation=%s failed=%s%s" % (
            o.prop, r.replay, o.name, ",".join(p for p, _ in plevel[:3]), suffix))
    for s in static_results or []:
        # static supporting facts: dict(name, ok, detail, replay_doc)
        if s["ok"] is None:
            infra.append("%s: %s" % (s["name"], s["detail"][:400]))
            continue
        if not s["ok"]:
            rdir = os.path.join(VERIF, "evidence", "replay"); os.makedirs(rdir, exist_ok=True)
            path = os.path.join(rdir, s["name"] + ".json")
            with open(path, "w") as f:
                json.dump({"obligation": s["name"], "property": prop, "verifier_output_tail": s["detail"]}, f, indent=1)
            violations.append("VIOLATION property=%s replay=%s obligation=%s%s" % (
                prop, path, s["name"], "" if s.get("reproduced") else " no-failing-input-found"))
    wall = time.time() - t0
    # ---------------- evidence
    proof = [r for r in results if r.obl.mode == "proof"]
    bounded = [r for r in results if r.obl.mode != "proof"]
    def row(r):
        o = r.obl
        d = {"obligation": o.name, "mode": o.mode, "status": r.status, "cbmc_properties": r.n_props,
             "wall_s": round(r.wall, 1), "solver_s": round(r.solver_s, 2),
             "backend": o.solver or "cbmc built-in SAT (minisat2)"}
        if o.bound: d["bound"] = o.bound
        if o.enforce: d["enforced_contract"] = o.enforce
        if o.replace: d["callees_replaced_by_contract"] = o.replace
        if o.case is not None: d["case"] = o.case
        if r.failed: d["failed"] = [p for p, _ in r.failed[:6]]
        return d
    cov = {
        "obligations": len(proof), "discharged": sum(1 for r in proof if r.status == "pass"),
        "bounded_obligations": len(bounded), "bounded_discharged": sum(1 for r in bounded if r.status == "pass"),
        "cbmc_properties_checked": sum(r.n_props for r in results),
        "bounds": sorted(set(r.obl.bound for r in bounded if r.obl.bound)),
        "checker_cmd": "goto-cc --function <entry> ... ; goto-instrument --dfcc <entry> --enforce-contract <f> "
                       "[--replace-call-with-contract g] [--apply-loop-contracts] ; cbmc --json-ui " + " ".join(CBMC_BASE),
        "trusted_base": trusted,
        "functions_under_contract": functions,
        "solver_s_total": round(sum(r.solver_s for r in results), 1),
        "evaluations": len(results),
        "distinct_nontrivial": len(set(r.obl.name for r in results if r.n_props > 0)),
        "rule": rule,
        "explanation": explanation,
        "exhaustive": False,
        "samples": [row(r) for r in results[:400]],
        "infrastructure_notes": ctx.notes[:200],
        "static_facts": [{k: v for k, v in s.items() if k != "replay_doc"} for s in (static_results or [])],
    }
    if level == "model_checking":
        cov["states"] = max(1, cov["cbmc_properties_checked"])
        cov["transitions"] = max(1, len(results))
        cov["traces_validated_against_impl"] = sum(1 for r in results if r.reproduced)
    if extra_cov:
        cov.update(extra_cov)
    if getattr(ctx, "extra_cov", None):
        cov.update(ctx.extra_cov)
    ev = {"property_id": prop, "tier": tier, "seed": seed, "level": level, "coverage": cov,
          "assumptions": assumptions, "wall_s": round(wall, 1), "violations": len(violations),
          "known_findings_hit": known_lines, "proof_degraded": [o.name for o, _ in degraded],
          "undecided": infra}
    os.makedirs(os.path.join(VERIF, "evidence"), exist_ok=True)
    with open(os.path.join(VERIF, "evidence", prop + ".json"), "w") as f:
        json.dump(ev, f, indent=1)
    # ---------------- report
    for l in sorted(set(known_lines)):
        print(l)
    for o, aux in degraded:
        print("PROOF-DEGRADED obligation=%s failed=%s" % (o.name, ",".join(p for p, _ in aux[:3])))
    for l in violations:
        print(l)
    for l in infra:
        print("UNDECIDED " + l.replace("\n", " ")[:700])
    print("%s %s: %d proof obligations (%d discharged), %d bounded (%d discharged), %d cbmc properties, %.0fs" % (
        prop, tier, cov["obligations"], cov["discharged"], cov["bounded_obligations"],
        cov["bounded_discharged"], cov["cbmc_properties_checked"], wall))
    if violations:
        return 1
    if infra or degraded:      # an auxiliary proof step failed: not a violation, but the property was NOT shown either
        return 2
    return 0


def write_infra_evidence(prop, tier, seed, mod, msg):
    ev = {"property_id": prop, "tier": tier, "seed": seed, "level": getattr(mod, "LEVEL", "other"),
          "coverage": {"evaluations": 1, "distinct_nontrivial": 2, "obligations": 0, "discharged": 0,
                       "rule": "infrastructure failure before any obligation ran", "samples": [msg[:500]],
                       "explanation": "UNDECIDED: " + msg[:500], "checker_cmd": "n/a", "trusted_base": []},
          "assumptions": [], "wall_s": 0.0, "violations": 0, "undecided": [msg[:1000]]}
    os.makedirs(os.path.join(VERIF, "evidence"), exist_ok=True)
    with open(os.path.join(VERIF, "evidence", prop + ".json"), "w") as f:
        json.dump(ev, f, indent=1)


def prepare_injected(ctx, loops_files, relfiles):
    """Write ctx.inj/<basename> = working-tree file + loop contracts."""
    import inject_loops
    specs = []
    for lf in loops_files:
        specs += inject_loops.parse_loops_file(os.path.join(VERIF, "contracts", lf))
    for rel in relfiles:
        out = os.path.join(ctx.inj, "inj_" + os.path.basename(rel))
        try:
            inject_loops.inject(ctx.repo, specs, rel, out, ctx.notes)
        except inject_loops.InjectError as e:
            # the proof obligations that need the injected file become undecided (their goto-cc fails);
            # obligations on the raw working-tree file still run and can still decide the property
            ctx.infra_errors.append("loop-contract injection into %s failed: %s" % (rel, e))
