#!/usr/bin/env python3
"""setup_cmd: nothing is built ahead of time (every check rebuilds from /repo's working tree);
this only verifies that the tools the checks need are present."""
import shutil, subprocess, sys
missing = [t for t in ("cbmc", "goto-cc", "goto-instrument", "gcc", "python3") if not shutil.which(t)]
if missing:
    print("missing tools:", missing); sys.exit(1)
print(subprocess.run(["cbmc", "--version"], capture_output=True, text=True).stdout.strip())
