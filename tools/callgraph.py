#!/usr/bin/env python3
"""Effects contract for C03 (no allocation, no lock on the message path), checked function by function on call graphs.

  object-code graph: objdump -dr of objects compiled from the working tree with the shipped flags; an edge is every
                     direct call/jump target and every relocation against a function symbol inside a function's text
                     (address-taken functions are therefore edges too: over-approximation).
  goto graph:        goto-instrument --call-graph of the goto binaries of the C layer (function pointers resolved by
                     CBMC's signature-based over-approximation).
The contract of a function: "every direct callee is alloc_free & lock_free (same contract) or on the leaf allow-list".
The closure over the graph is the induction; a violation names the caller -> callee edge chain."""
import re, subprocess, collections

FORBIDDEN_EXACT = {
    "malloc", "calloc", "realloc", "free", "posix_memalign", "aligned_alloc", "memalign", "valloc", "strdup", "strndup",
    "pthread_mutex_lock", "pthread_mutex_trylock", "pthread_mutex_timedlock", "pthread_mutex_unlock",
    "pthread_rwlock_rdlock", "pthread_rwlock_wrlock", "pthread_spin_lock", "sem_wait", "pthread_cond_wait", "pthread_cond_timedwait",
    "flockfile", "mtx_lock",
    "__cxa_allocate_exception", "__cxa_throw", "__cxa_rethrow", "__cxa_guard_acquire",
    "fopen", "fclose", "printf", "fprintf", "puts",
}
FORBIDDEN_PREFIX = ("_Znw", "_Zna", "_Zdl", "_Zda",               # operator new/delete (all forms)
                    "_ZNSt7__cxx1112basic_string",                 # any std::string member (construction/growth allocates)
                    "_ZNSs",                                       # old-ABI std::string
                    "_ZSt20__throw_length_error", "_ZSt17__throw_bad_alloc", "_ZSt19__throw_logic_error",
                    "_ZSt24__throw_out_of_range", "_ZNSt6vectorI", "_ZNSt5dequeI", "_ZNSt3mapI", "_ZNSt8_Rb_tree",
                    "_ZNSt5mutex", "_ZNSt15__mutex_base")
# allowed although external: documented precondition violations / pure libc leaves
ALLOWED_EXTERNAL = {
    "memcpy", "memset", "memmove", "strlen", "strcmp", "strncmp", "strchr", "strrchr", "strstr", "strcpy", "strncpy",
    "atoi", "atof", "strtol", "isdigit", "isprint", "isalpha", "isspace", "__ctype_b_loc", "__stack_chk_fail", "abort",
    "__assert_fail", "_Unwind_Resume", "__cxa_begin_catch", "__cxa_end_catch", "__gxx_personality_v0",
    "_ZSt25__throw_bad_function_callv",     # only reached when a port has no callback: excluded by the port-table contract
    "__cxa_call_unexpected", "__clang_call_terminate", "_ZSt9terminatev", "snprintf", "vsnprintf", "__vsnprintf_chk",
    "__snprintf_chk", "__memcpy_chk", "__memset_chk", "__strcpy_chk", "__strncpy_chk", "roundf", "floorf", "round", "floor",
    "expf", "logf", "powf", "fabsf", "lrintf", "lroundf", "fmodf", "__isoc99_sscanf", "sscanf",
    "memchr", "memcmp", "strnlen", "strspn", "strcspn", "strpbrk", "strtoul", "strtod", "strtof", "tolower", "toupper",
    "abs", "labs", "bcmp", "sqrtf", "sqrt", "sinf", "cosf", "exp", "log", "pow", "fabs", "ceilf", "ceil", "truncf", "fminf", "fmaxf",
    "log2f", "log10f", "exp2f", "__cxa_pure_virtual", "strcat", "strncat", "__strcat_chk", "strtok_r", "isalnum", "isupper", "islower",
    "isxdigit", "__ctype_tolower_loc", "__ctype_toupper_loc", "atol", "atoll", "strtoll", "strtoull", "qsort", "bsearch", "__builtin_memcpy", "__builtin_memset", "_GLOBAL_OFFSET_TABLE_",
}


def is_forbidden(sym):
    return sym in FORBIDDEN_EXACT or sym.startswith(FORBIDDEN_PREFIX)


def object_graph(objs):
    """returns (edges: caller -> set(callee), defined: set, indirect: caller -> count of indirect calls)"""
    edges = collections.defaultdict(set)
    defined = set()
    indirect = collections.Counter()
    data_syms = set()
    for o in objs:
        nm = subprocess.run(["nm", o], stdout=subprocess.PIPE, text=True).stdout
        for l in nm.splitlines():
            f = l.split()
            if len(f) == 3 and f[1] in "bBdDrRvVgGsSC":
                data_syms.add(f[2])
    for o in objs:
        out = subprocess.run(["objdump", "-dr", "--no-show-raw-insn", o], stdout=subprocess.PIPE, text=True).stdout
        cur = None
        for line in out.splitlines():
            m = re.match(r"^[0-9a-f]+ <(.+)>:$", line)
            if m:
                cur = m.group(1)
                defined.add(cur)
                continue
            if cur is None:
                continue
            m = re.search(r"\b(?:call|jmp|j[a-z]+)\s+[0-9a-f]+ <([^>+]+)(?:\+0x[0-9a-f]+)?>", line)
            if m and m.group(1) != cur:
                edges[cur].add(m.group(1))
            if re.search(r"\b(?:call|jmp)\s+\*", line):
                indirect[cur] += 1
            m = re.search(r"R_X86_64_\w+\s+([A-Za-z_][\w.$@]*)(?:[-+]0x[0-9a-f]+)?\s*$", line)
            if m:
                s = m.group(1).split("@")[0]
                if not s.startswith((".L", ".rodata", ".text", ".data", ".bss", ".LC")) and s != cur:
                    edges[cur].add(s)
    for f in edges:
        edges[f] = {c for c in edges[f] if c not in data_syms and not c.startswith(("_ZTV", "_ZTI", "_ZTS", "_ZGV", "DW.ref"))
                    and c not in ("stderr", "stdout", "stdin", "__dso_handle", "_GLOBAL_OFFSET_TABLE_")}
    return edges, defined, indirect


def demangle(names):
    names = list(names)
    if not names:
        return {}
    p = subprocess.run(["c++filt"], input="\n".join(names), stdout=subprocess.PIPE, text=True)
    return dict(zip(names, p.stdout.splitlines()))


def goto_graph(gb):
    out = subprocess.run(["goto-instrument", "--call-graph", gb], stdout=subprocess.PIPE, stderr=subprocess.DEVNULL, text=True).stdout
    edges = collections.defaultdict(set)
    for line in out.splitlines():
        m = re.match(r"^(\S+) -> (\S+)$", line.strip())
        if m:
            edges[m.group(1)].add(m.group(2))
    return edges


def check_closure(edges, defined, entries, is_data=lambda s: False):
    """BFS from each entry; returns (violations [(entry, chain)], unknown externals set, visited set)"""
    violations, unknown, visited_all = [], set(), set()
    for e in entries:
        parent = {e: None}
        q = collections.deque([e])
        while q:
            f = q.popleft()
            for c in sorted(edges.get(f, ())):
                if c in parent:
                    continue
                parent[c] = f
                if is_forbidden(c):
                    chain = [c]; x = f
                    while x is not None:
                        chain.append(x); x = parent[x]
                    violations.append((e, list(reversed(chain))))
                    continue
                if c in defined:
                    q.append(c)
                elif c not in ALLOWED_EXTERNAL:
                    unknown.add(c)
        visited_all |= set(parent)
    return violations, unknown, visited_all
