/* Contracts (C17) on the mechanically extracted metadata scanner (src/cpp/ports.cpp -> ctx.ext/C17_meta.inc).
 * Forward declarations placed after the lifted struct types and before the extracted function text.
 *
 * Two sets, selected by the obligation:
 *
 *  C17_VIEW_CONTRACT  (bounded lookup obligations): MetaIterator_inc stated over the ghost view of ONE concrete block
 *      shape: "at entry j  ->  at entry j+1 (or the null iterator after the last)". The same formula INC_STEP is
 *      asserted of the real operator++ for every j in the iteration obligations of that shape, so find/operator[]
 *      are checked against a callee contract that is discharged separately (DESIGN 5.1).
 *
 *  C17_FORALL         (proof obligations, ANY block length <= 2^16, SMT back end cvc5): one entry of a well-formed block
 *      described by ghost offsets (M_KO key start, M_KE key NUL, M_HASVAL, M_VE value NUL) with "no NUL inside key and
 *      value" as __CPROVER_forall facts. Proved: reads stay inside the block, nothing but the iterator is written, the
 *      scans terminate, operator++ lands EXACTLY on the next entry's key/value (or the null iterator), length() == block length.
 *
 *  default            (same, quantifier-free, SAT back end; also carries the canaries, which need a model and therefore cannot
 *      run on the quantified set): safety, frame, termination, result ranges; "no early stop" per arbitrary ghost offset M_G. */
#ifndef CONTRACT_META_H
#define CONTRACT_META_H
#include <stddef.h>
#include <stdbool.h>

#define M_OFF(q) ((size_t)__CPROVER_POINTER_OFFSET(q))

#ifdef C17_VIEW_CONTRACT
/* ---------------------------------------------------------------- view contract (bounded, per shape) */
extern const unsigned char *G_BLK;          /* the block */
extern int G_K, G_KEY[8], G_VAL[8];         /* ghost view: entry count, key offsets, value offsets (-1 none) */
#define G_TITLE(j) ((const char *)G_BLK + G_KEY[j])
#define G_VALUE(j) (G_VAL[j] < 0 ? (const char *)0 : (const char *)G_BLK + G_VAL[j])
#define AT_ENTRY(t, j) ((j) < G_K && (t) == G_TITLE(j))
/* Contract of operator++ over the view:   requires  the iterator is at some entry j (title == key j)
 *                                         ensures   j+1 < k: title == key j+1, value == value j+1 (NULL if none); else title == NULL
 * Applied by hand (assert requires / establish ensures) because goto-instrument --replace-call-with-contract under --unwind
 * costs gigabytes here; the harness puts `#define MetaIterator_inc(it) MetaIterator_inc__by_contract(it)` between the two
 * extracted files, so only the calls inside MetaContainer::find / operator[] are replaced. */
static void MetaIterator_inc__by_contract(struct MetaIterator *self)
{
    int j = -1;
    for(int i = 0; i < 8; i++)
        if(j < 0 && AT_ENTRY(self->title, i))
            j = i;
    __CPROVER_assert(j >= 0, "C17 requires of operator++ (view contract): the iterator is at an entry of the block");
    if(j + 1 < G_K) { self->title = G_TITLE(j + 1); self->value = G_VALUE(j + 1); }
    else            { self->title = (const char *)0; self->value = nondet_c17_ptr(); }
}

#elif defined(C17_FORALL)
/* ---------------------------------------------------------------- proof contracts, quantified (any block length; SMT back end cvc5): EXACT landing */
#define M_MAXLEN ((size_t)1 << 16)
extern const char *M_BLK;                   /* ghost: the block object (offset 0), M_LEN bytes */
extern size_t M_LEN;
extern size_t M_KO, M_KE, M_VE;             /* ghost offsets of ONE entry: key start, key NUL, value NUL */
extern int    M_HASVAL;
extern size_t A_KE;                         /* ghost: the first NUL at or behind the title handed to metaiterator_advance */
extern size_t M_T;                          /* ghost: offset of the block terminator, M_LEN == M_T + 1 */
#define M_E   (M_HASVAL ? M_VE : M_KE)      /* the NUL that ends the entry */

#define M_BLOCK_OK (M_LEN <= M_MAXLEN && M_OFF(M_BLK) == 0 && __CPROVER_OBJECT_SIZE(M_BLK) == M_LEN)
#define M_NONZERO(qi, lo, hi) __CPROVER_forall { size_t qi; ((lo) <= qi && qi < (hi)) ==> M_BLK[qi] != 0 }   /* qi: bound variable, unique per contract */
/* what wf_block (spec/meta_spec.h) says about ONE entry and the byte behind it, over the ghost offsets:
 *   ':' key NUL ['=' value NUL]  then ':' or NUL;  key non-empty, no NUL in it, not starting with ':';  no NUL in the value */
#define M_ENTRY_WF ( M_BLOCK_OK && M_KO >= 1 && M_KO < M_KE && M_KE < M_LEN && M_KE + 1 < M_LEN \
    && M_BLK[M_KO - 1] == ':' && M_BLK[M_KO] != ':' && M_BLK[M_KE] == 0 \
    && (M_HASVAL ? (M_BLK[M_KE + 1] == '=' && M_KE + 2 <= M_VE && M_VE < M_LEN && M_VE + 1 < M_LEN && M_BLK[M_VE] == 0) \
                 : (M_BLK[M_KE + 1] == ':' || M_BLK[M_KE + 1] == 0)) \
    && (M_BLK[M_E + 1] == ':' || M_BLK[M_E + 1] == 0) )
#define M_ENTRY_NO_NUL ( M_NONZERO(qk, M_KO, M_KE) && (!M_HASVAL || M_NONZERO(qv, M_KE + 2, M_VE)) )
/* the key of the entry that follows: starts at o, its NUL is at A_KE, one more byte is readable behind it */
#define A_KEY_WF(o) (M_BLOCK_OK && (o) < A_KE && A_KE < M_LEN && A_KE + 1 < M_LEN && M_BLK[A_KE] == 0 && M_NONZERO(qn, (o), A_KE))

/* metaiterator_advance(title, value): title is NULL or the start of a key [title, A_KE): value = the bytes behind the key's NUL
 * and an '=' if that is what follows, else NULL; title unchanged; nothing else written; reads only [title, A_KE+1]. */
void metaiterator_advance(const char **title__p, const char **value__p)
__CPROVER_requires(__CPROVER_rw_ok(title__p, sizeof(*title__p)) && __CPROVER_rw_ok(value__p, sizeof(*value__p)) && title__p != value__p)
__CPROVER_requires(*title__p == (const char *)0 || (__CPROVER_same_object(*title__p, M_BLK) && A_KEY_WF(M_OFF(*title__p))))
__CPROVER_assigns(*value__p)
__CPROVER_ensures(*title__p == __CPROVER_old(*title__p))
__CPROVER_ensures(*value__p == ((*title__p != (const char *)0 && M_BLK[A_KE + 1] == '=') ? M_BLK + A_KE + 2 : (const char *)0))
;

/* operator++ at the ghost entry of a well-formed block: afterwards the iterator is at the NEXT entry (title = its key, value = its
 * value or NULL) or is the null iterator when the entry was the last one. A_KE describes the next key if there is one. */
void MetaIterator_inc(struct MetaIterator *self)
__CPROVER_requires(__CPROVER_rw_ok(self, sizeof(*self)))
__CPROVER_requires(M_ENTRY_WF && M_ENTRY_NO_NUL && __CPROVER_same_object(self->title, M_BLK) && M_OFF(self->title) == M_KO)
__CPROVER_requires(M_BLK[M_E + 1] != ':' || A_KEY_WF(M_E + 2))
__CPROVER_assigns(self->title, self->value)
__CPROVER_ensures(self->title == (M_BLK[M_E + 1] == ':' ? M_BLK + M_E + 2 : (const char *)0))
__CPROVER_ensures(self->value == ((M_BLK[M_E + 1] == ':' && M_BLK[A_KE + 1] == '=') ? M_BLK + A_KE + 2 : (const char *)0))
;

/* MetaContainer::length() for the container Port::meta() makes of a well-formed block (str_ptr == block + 1): the block's byte length
 * including its terminator. Well-formed here: first key non-empty and not starting with ':', the block ends in NUL NUL and no
 * earlier NUL NUL exists (every earlier NUL is followed by '=' or ':'). */
size_t MetaContainer_length(const struct MetaContainer *self)
__CPROVER_requires(__CPROVER_r_ok(self, sizeof(*self)))
__CPROVER_requires(M_BLOCK_OK && M_T >= 3 && M_LEN == M_T + 1 && __CPROVER_same_object(self->str_ptr, M_BLK) && M_OFF(self->str_ptr) == 1
                   && M_BLK[0] == ':' && M_BLK[1] != 0 && M_BLK[1] != ':' && M_BLK[M_T] == 0 && M_BLK[M_T - 1] == 0)
__CPROVER_requires(__CPROVER_forall { size_t qi; (2 <= qi && qi < M_T) ==> (M_BLK[qi - 1] != 0 || M_BLK[qi] != 0) })
__CPROVER_assigns()
__CPROVER_ensures(__CPROVER_return_value == M_LEN)
;
#define ADV_INV_EXTRA(t, v) 1

#else
/* ---------------------------------------------------------------- proof contracts, quantifier-free (any block length; SAT back end): safety, frame, termination, ranges, per-M_G landing */
#define M_MAXLEN ((size_t)1 << 16)
extern const char *M_BLK;                   /* ghost: the block object (offset 0), M_LEN bytes */
extern size_t M_LEN;
extern size_t M_KO, M_KE, M_VE, M_G;        /* ghost offsets of ONE entry: key start, key NUL, value NUL; arbitrary offset M_G */
extern int    M_HASVAL;
#define M_E   (M_HASVAL ? M_VE : M_KE)      /* the NUL that ends the entry */

#define M_BLOCK_OK (M_LEN <= M_MAXLEN && M_OFF(M_BLK) == 0 && __CPROVER_OBJECT_SIZE(M_BLK) == M_LEN)
/* the facts wf_block (spec/meta_spec.h) gives about one entry and the byte after it, over the ghost offsets */
#define M_ENTRY_WF ( M_BLOCK_OK && M_KO >= 1 && M_KO < M_KE && M_KE < M_LEN \
    && M_BLK[M_KO] != 0 && M_BLK[M_KO] != ':' && M_BLK[M_KE] == 0 \
    && M_KE + 1 < M_LEN \
    && (M_HASVAL ? (M_BLK[M_KE + 1] == '=' && M_KE + 2 <= M_VE && M_VE < M_LEN && M_VE + 1 < M_LEN && M_BLK[M_VE] == 0) \
                 : (M_BLK[M_KE + 1] == ':' || M_BLK[M_KE + 1] == 0)) \
    && (M_BLK[M_E + 1] == ':' || M_BLK[M_E + 1] == 0) )
/* wf_block also says: no NUL inside the key and inside the value. Stated for the arbitrary offset M_G (the forall):
 * M_G is not a place where the scan of operator++ may stop, i.e. not (previous byte NUL and this byte NUL or ':') */
#define M_G_IN_ENTRY   (M_G >= M_KO && M_G <= M_E)
#define M_G_NOT_A_STOP (M_G == M_KO ? true : (M_BLK[M_G - 1] != 0 || (M_BLK[M_G] != 0 && M_BLK[M_G] != ':')))
#define M_G_NONZERO_IN_KEY (M_G < M_KO || M_G >= M_KE || M_BLK[M_G] != 0)

/* metaiterator_advance(title, value): title is NULL, or points into the block at or before a NUL at ghost offset A_KE that
 * has one more byte behind it (for a well-formed block: the key's NUL; own ghost A_KE because operator++ calls it on the
 * NEXT entry). Safety needs no more; the value clause is per arbitrary offset M_G. */
extern size_t A_KE;
#define A_WF(t) (M_BLOCK_OK && __CPROVER_same_object((t), M_BLK) && M_OFF(t) <= A_KE && A_KE < M_LEN && A_KE + 1 < M_LEN && M_BLK[A_KE] == 0)
void metaiterator_advance(const char **title__p, const char **value__p)
__CPROVER_requires(__CPROVER_rw_ok(title__p, sizeof(*title__p)) && __CPROVER_rw_ok(value__p, sizeof(*value__p)) && title__p != value__p)
__CPROVER_requires(*title__p == (const char *)0 || A_WF(*title__p))
__CPROVER_assigns(*value__p)
__CPROVER_ensures(*title__p == __CPROVER_old(*title__p))
__CPROVER_ensures(*title__p != (const char *)0 || *value__p == (const char *)0)
/* a value, if reported, starts behind a "NUL '='" pair inside [title, A_KE+1], and the byte at the arbitrary offset M_G between title
 * and that NUL is not NUL: with M_G arbitrary, the NUL is the FIRST one, i.e. "the value is exactly what follows the key and '='" */
__CPROVER_ensures(*title__p == (const char *)0 || *value__p == (const char *)0 ||
                  (__CPROVER_same_object(*value__p, M_BLK) && M_OFF(*value__p) >= M_OFF(*title__p) + 2 && M_OFF(*value__p) <= A_KE + 2
                   && (M_G < M_OFF(*title__p) || M_G >= M_OFF(*value__p) - 2 || M_BLK[M_G] != 0)
                   && M_BLK[M_OFF(*value__p) - 1] == '=' && M_BLK[M_OFF(*value__p) - 2] == 0))
;

/* operator++ from the ghost entry: stays inside the block, ends at NULL or behind a "NUL ':'" pair inside the entry range
 * that is not at M_G. A_KE: the NUL of the next entry's key if there is a next entry, else the entry's own final NUL. */
void MetaIterator_inc(struct MetaIterator *self)
__CPROVER_requires(__CPROVER_rw_ok(self, sizeof(*self)))
__CPROVER_requires(M_ENTRY_WF && __CPROVER_same_object(self->title, M_BLK) && M_OFF(self->title) == M_KO)
__CPROVER_requires(M_BLK[M_E + 1] == ':' ? (A_KE >= M_E + 3 && A_KE < M_LEN && A_KE + 1 < M_LEN && M_BLK[A_KE] == 0) : A_KE == M_E)
__CPROVER_requires(!M_G_IN_ENTRY || M_G_NOT_A_STOP)                                     /* no NUL inside key and value: M_G is no stopping place */
__CPROVER_assigns(self->title, self->value)
__CPROVER_ensures(self->title == (const char *)0 ||
                  (__CPROVER_same_object(self->title, M_BLK) && M_OFF(self->title) >= M_KO + 1 && M_OFF(self->title) <= M_E + 2
                   && (!M_G_IN_ENTRY || M_OFF(self->title) != M_G + 1)
                   && M_BLK[M_OFF(self->title) - 1] == ':' && M_BLK[M_OFF(self->title) - 2] == 0))
/* a value is only reported with a title, and then follows a "NUL '='" behind that title */
__CPROVER_ensures(self->value == (const char *)0 ||
                  (self->title != (const char *)0 && __CPROVER_same_object(self->value, M_BLK) && M_OFF(self->value) >= M_OFF(self->title) + 2
                   && M_OFF(self->value) <= A_KE + 2 && M_BLK[M_OFF(self->value) - 1] == '='))
;

/* MetaContainer::length() for a container that Port::meta() produced from the block: str_ptr == block + 1 */
extern size_t M_T;                          /* ghost: offset of the block terminator, M_LEN == M_T + 1 */
size_t MetaContainer_length(const struct MetaContainer *self)
__CPROVER_requires(__CPROVER_r_ok(self, sizeof(*self)))
__CPROVER_requires(M_BLOCK_OK && M_T >= 3 && M_LEN == M_T + 1 && __CPROVER_same_object(self->str_ptr, M_BLK) && M_OFF(self->str_ptr) == 1
                   && M_BLK[0] == ':' && M_BLK[1] != 0 && M_BLK[1] != ':' && M_BLK[M_T] == 0 && M_BLK[M_T - 1] == 0)
/* no earlier "NUL NUL": for the arbitrary offset M_G */
__CPROVER_requires(M_G < 2 || M_G >= M_T || M_BLK[M_G - 1] != 0 || M_BLK[M_G] != 0)
__CPROVER_assigns()
/* 3 <= result <= block length, and the result is not M_G + 1 for any M_G before the terminator: with M_G arbitrary, result == block length */
__CPROVER_ensures(__CPROVER_return_value >= 3 && __CPROVER_return_value <= M_LEN && (M_G >= M_T || __CPROVER_return_value != M_G + 1))
;
/* loop invariant piece of metaiterator_advance: the arbitrary offset M_G between title and cursor is not NUL */
#define ADV_INV_EXTRA(t, v) (M_G < M_OFF(t) || M_G >= M_OFF(v) || M_BLK[M_G] != 0)
#endif
#endif
