/* Contracts (C17) on the mechanically extracted metadata scanner (src/cpp/ports.cpp -> ctx.ext/C17_meta.inc).
 * Forward declarations placed after the lifted struct types and before the extracted function text.
 *
 * Two sets, selected by the obligation:
 *
 *  C17_VIEW_CONTRACT  (bounded lookup obligations): MetaIterator_inc stated over the ghost view of ONE concrete block
 *      shape: "at entry j  ->  at entry j+1 (or the null iterator after the last)". The same formula INC_STEP is
 *      asserted of the real operator++ for every j in the iteration obligations of that shape, so find/operator[]
 *      are checked against a callee contract that is discharged separately (DESIGN 5.1).
 *
 *  default            (proof obligations, ANY block length <= 2^16): one entry of a well-formed block described by
 *      ghost offsets (M_KO key start, M_KE key NUL, M_HASVAL, M_VE value NUL) with "no NUL inside key and value" as
 *      __CPROVER_forall facts (SMT back end, cvc5). Proved: every read stays inside the block (indeed inside
 *      [entry start, next key's NUL + 1]), nothing but the iterator is written, the scans terminate, and operator++
 *      lands EXACTLY on the next entry's key/value (or the null iterator); length() == block length. */
#ifndef CONTRACT_META_H
#define CONTRACT_META_H
#include <stddef.h>
#include <stdbool.h>

#define M_OFF(q) ((size_t)__CPROVER_POINTER_OFFSET(q))

#ifdef C17_VIEW_CONTRACT
/* ---------------------------------------------------------------- view contract (bounded, per shape) */
extern const unsigned char *G_BLK;          /* the block */
extern int G_K, G_KEY[8], G_VAL[8];         /* ghost view: entry count, key offsets, value offsets (-1 none) */
#define G_TITLE(j) ((const char *)G_BLK + G_KEY[j])
#define G_VALUE(j) (G_VAL[j] < 0 ? (const char *)0 : (const char *)G_BLK + G_VAL[j])
#define AT_ENTRY(t, j) ((j) < G_K && (t) == G_TITLE(j))
/* Contract of operator++ over the view:   requires  the iterator is at some entry j (title == key j)
 *                                         ensures   j+1 < k: title == key j+1, value == value j+1 (NULL if none); else title == NULL
 * Applied by hand (assert requires / establish ensures) because goto-instrument --replace-call-with-contract under --unwind
 * costs gigabytes here; the harness puts `#define MetaIterator_inc(it) MetaIterator_inc__by_contract(it)` between the two
 * extracted files, so only the calls inside MetaContainer::find / operator[] are replaced. */
static void MetaIterator_inc__by_contract(struct MetaIterator *self)
{
    int j = -1;
    for(int i = 0; i < 8; i++)
        if(j < 0 && AT_ENTRY(self->title, i))
            j = i;
    __CPROVER_assert(j >= 0, "C17 requires of operator++ (view contract): the iterator is at an entry of the block");
    if(j + 1 < G_K) { self->title = G_TITLE(j + 1); self->value = G_VALUE(j + 1); }
    else            { self->title = (const char *)0; self->value = nondet_c17_ptr(); }
}

#else
/* ---------------------------------------------------------------- proof contracts (any block length) */
#define M_MAXLEN ((size_t)1 << 16)
extern const char *M_BLK;                   /* ghost: the block object (offset 0), M_LEN bytes */
extern size_t M_LEN;
extern size_t M_KO, M_KE, M_VE;             /* ghost offsets of ONE entry: key start, key NUL, value NUL */
extern int    M_HASVAL;
extern size_t A_KE;                         /* ghost: the first NUL at or behind the title handed to metaiterator_advance */
extern size_t M_T;                          /* ghost: offset of the block terminator, M_LEN == M_T + 1 */
#define M_E   (M_HASVAL ? M_VE : M_KE)      /* the NUL that ends the entry */

#define M_BLOCK_OK (M_LEN <= M_MAXLEN && M_OFF(M_BLK) == 0 && __CPROVER_OBJECT_SIZE(M_BLK) == M_LEN)
#define M_NONZERO(qi, lo, hi) __CPROVER_forall { size_t qi; ((lo) <= qi && qi < (hi)) ==> M_BLK[qi] != 0 }   /* qi: bound variable, unique per contract */
/* what wf_block (spec/meta_spec.h) says about ONE entry and the byte behind it, over the ghost offsets:
 *   ':' key NUL ['=' value NUL]  then ':' or NUL;  key non-empty, no NUL in it, not starting with ':';  no NUL in the value */
#define M_ENTRY_WF ( M_BLOCK_OK && M_KO >= 1 && M_KO < M_KE && M_KE < M_LEN && M_KE + 1 < M_LEN \
    && M_BLK[M_KO - 1] == ':' && M_BLK[M_KO] != ':' && M_BLK[M_KE] == 0 \
    && (M_HASVAL ? (M_BLK[M_KE + 1] == '=' && M_KE + 2 <= M_VE && M_VE < M_LEN && M_VE + 1 < M_LEN && M_BLK[M_VE] == 0) \
                 : (M_BLK[M_KE + 1] == ':' || M_BLK[M_KE + 1] == 0)) \
    && (M_BLK[M_E + 1] == ':' || M_BLK[M_E + 1] == 0) )
#define M_ENTRY_NO_NUL ( M_NONZERO(qk, M_KO, M_KE) && (!M_HASVAL || M_NONZERO(qv, M_KE + 2, M_VE)) )
/* the key of the entry that follows: starts at o, its NUL is at A_KE, one more byte is readable behind it */
#define A_KEY_WF(o) (M_BLOCK_OK && (o) < A_KE && A_KE < M_LEN && A_KE + 1 < M_LEN && M_BLK[A_KE] == 0 && M_NONZERO(qn, (o), A_KE))

/* metaiterator_advance(title, value): title is NULL or the start of a key [title, A_KE): value = the bytes behind the key's NUL
 * and an '=' if that is what follows, else NULL; title unchanged; nothing else written; reads only [title, A_KE+1]. */
void metaiterator_advance(const char **title__p, const char **value__p)
__CPROVER_requires(__CPROVER_rw_ok(title__p, sizeof(*title__p)) && __CPROVER_rw_ok(value__p, sizeof(*value__p)) && title__p != value__p)
__CPROVER_requires(*title__p == (const char *)0 || (__CPROVER_same_object(*title__p, M_BLK) && A_KEY_WF(M_OFF(*title__p))))
__CPROVER_assigns(*value__p)
__CPROVER_ensures(*title__p == __CPROVER_old(*title__p))
__CPROVER_ensures(*value__p == ((*title__p != (const char *)0 && M_BLK[A_KE + 1] == '=') ? M_BLK + A_KE + 2 : (const char *)0))
;

/* operator++ at the ghost entry of a well-formed block: afterwards the iterator is at the NEXT entry (title = its key, value = its
 * value or NULL) or is the null iterator when the entry was the last one. A_KE describes the next key if there is one. */
void MetaIterator_inc(struct MetaIterator *self)
__CPROVER_requires(__CPROVER_rw_ok(self, sizeof(*self)))
__CPROVER_requires(M_ENTRY_WF && M_ENTRY_NO_NUL && __CPROVER_same_object(self->title, M_BLK) && M_OFF(self->title) == M_KO)
__CPROVER_requires(M_BLK[M_E + 1] != ':' || A_KEY_WF(M_E + 2))
__CPROVER_assigns(self->title, self->value)
__CPROVER_ensures(self->title == (M_BLK[M_E + 1] == ':' ? M_BLK + M_E + 2 : (const char *)0))
__CPROVER_ensures(self->value == ((M_BLK[M_E + 1] == ':' && M_BLK[A_KE + 1] == '=') ? M_BLK + A_KE + 2 : (const char *)0))
;

/* MetaContainer::length() for the container Port::meta() makes of a well-formed block (str_ptr == block + 1): the block's byte length
 * including its terminator. Well-formed here: first key non-empty and not starting with ':', the block ends in NUL NUL and no
 * earlier NUL NUL exists (every earlier NUL is followed by '=' or ':'). */
size_t MetaContainer_length(const struct MetaContainer *self)
__CPROVER_requires(__CPROVER_r_ok(self, sizeof(*self)))
__CPROVER_requires(M_BLOCK_OK && M_T >= 3 && M_LEN == M_T + 1 && __CPROVER_same_object(self->str_ptr, M_BLK) && M_OFF(self->str_ptr) == 1
                   && M_BLK[0] == ':' && M_BLK[1] != 0 && M_BLK[1] != ':' && M_BLK[M_T] == 0 && M_BLK[M_T - 1] == 0)
__CPROVER_requires(__CPROVER_forall { size_t qi; (2 <= qi && qi < M_T) ==> (M_BLK[qi - 1] != 0 || M_BLK[qi] != 0) })
__CPROVER_assigns()
__CPROVER_ensures(__CPROVER_return_value == M_LEN)
;
#endif
#endif
