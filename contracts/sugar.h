/* C14: harness-side contracts of the collaborators of the port-sugar.h callback bodies.
 *
 * CBMC's C++ front end has no contract syntax, so each collaborator is a function that ASSERTS its
 * precondition and RETURNS a value constrained only by its postcondition (taken from the environment
 * record E, which the harness fills from the symbolic input struct IN).  Nothing here looks at the
 * callback under test; nothing here is part of port-sugar.h.
 *
 *   collaborator                        contract used                                         status
 *   rtosc_argument_string(msg)          returns the tag string of msg                         proved under C01
 *   rtosc_argument(msg,0)               returns argument 0 of msg (requires one to exist)     proved under C01
 *   Port::MetaContainer::operator[](k)  value text of key k, or NULL when k is not declared   proved under C17
 *   atoi(t) / atof(t)                   the number the decimal text t denotes                 assumed (libc)
 *   enum_key(meta, sym)                 index the metadata maps the symbol to                 assumed (C17 area)
 *   RtData::reply / broadcast           recorders: store channel, path, format, and the
 *                                       promoted type + value of every argument               observation point
 *   strcmp / strncpy / isdigit          CBMC's own library models                             trusted (CBMC)
 */
#ifndef C14_SUGAR_CONTRACTS_H
#define C14_SUGAR_CONTRACTS_H

extern "C" int isdigit(int);

/* ---------------------------------------------------------------- environment of one callback run */
struct c14_env {
    const char *msg;        /* the message handed to the callback                                  */
    const char *args;       /* its type tag string                                                 */
    rtosc_arg_t arg0;       /* its argument 0 (initialised through the member the tag designates)  */
    int has_min, has_max;   /* is "min"/"max" declared in the port's metadata                      */
    int min_i, max_i;       /* what atoi yields on the declared text                               */
    double min_d, max_d;    /* what atof yields on the declared text                               */
    const char *idx_txt;    /* array ports: where the decimal index starts inside msg              */
    unsigned idx;           /* ... and the number these digits denote                              */
    int enum_idx;           /* option ports: index of the incoming symbol                          */
    const char *meta_ptr;   /* what Port::meta() must have been built from                         */
};
static c14_env E;
static char c14_min_txt[2];     /* opaque "declared minimum" text: only its address matters */
static char c14_max_txt[2];

/* ---------------------------------------------------------------- recorder */
enum { C14_REPLY = 1, C14_BROADCAST = 2 };
enum { K_INT = 'I', K_DBL = 'D', K_STR = 'S' };
struct c14_event {
    int chan;
    const char *path;
    const char *fmt;
    int nargs;
    int kind[3];            /* promoted C type of each argument as pushed by the call */
    int i[3];
    double d[3];
    const char *s[3];
};
#define C14_MAXEV 4
static c14_event EV[C14_MAXEV];
static int NEV;

static c14_event *c14_new_event(int chan, const char *path, const char *fmt, int nargs)
{
    __CPROVER_assert(NEV < C14_MAXEV, "recorder: no callback emits more than 4 messages");
    c14_event *e = &EV[NEV];
    NEV = NEV + 1;
    e->chan = chan; e->path = path; e->fmt = fmt; e->nargs = nargs;
    return e;
}
static void c14_arg_i(c14_event *e, int k, int v)         { e->kind[k] = K_INT; e->i[k] = v; }
static void c14_arg_d(c14_event *e, int k, double v)      { e->kind[k] = K_DBL; e->d[k] = v; }
static void c14_arg_s(c14_event *e, int k, const char *v) { e->kind[k] = K_STR; e->s[k] = v; }

void rtosc::RtData::reply(const char *)
{ __CPROVER_assert(0, "reply(msg) is not used by parameter callbacks"); }
void rtosc::RtData::broadcast(const char *)
{ __CPROVER_assert(0, "broadcast(msg) is not used by parameter callbacks"); }

void rtosc::RtData::reply(const char *path, const char *args)
{ c14_new_event(C14_REPLY, path, args, 0); }
void rtosc::RtData::reply(const char *path, const char *args, int a)
{ c14_event *e = c14_new_event(C14_REPLY, path, args, 1); c14_arg_i(e, 0, a); }
void rtosc::RtData::reply(const char *path, const char *args, double a)
{ c14_event *e = c14_new_event(C14_REPLY, path, args, 1); c14_arg_d(e, 0, a); }
void rtosc::RtData::reply(const char *path, const char *args, const char *a)
{ c14_event *e = c14_new_event(C14_REPLY, path, args, 1); c14_arg_s(e, 0, a); }
void rtosc::RtData::reply(const char *path, const char *args, const char *a, int b, int c)
{ c14_event *e = c14_new_event(C14_REPLY, path, args, 3); c14_arg_s(e, 0, a); c14_arg_i(e, 1, b); c14_arg_i(e, 2, c); }
void rtosc::RtData::reply(const char *path, const char *args, const char *a, int b, double c)
{ c14_event *e = c14_new_event(C14_REPLY, path, args, 3); c14_arg_s(e, 0, a); c14_arg_i(e, 1, b); c14_arg_d(e, 2, c); }
void rtosc::RtData::reply(const char *path, const char *args, const char *a, double b, int c)
{ c14_event *e = c14_new_event(C14_REPLY, path, args, 3); c14_arg_s(e, 0, a); c14_arg_d(e, 1, b); c14_arg_i(e, 2, c); }
void rtosc::RtData::reply(const char *path, const char *args, const char *a, double b, double c)
{ c14_event *e = c14_new_event(C14_REPLY, path, args, 3); c14_arg_s(e, 0, a); c14_arg_d(e, 1, b); c14_arg_d(e, 2, c); }

void rtosc::RtData::broadcast(const char *path, const char *args)
{ c14_new_event(C14_BROADCAST, path, args, 0); }
void rtosc::RtData::broadcast(const char *path, const char *args, int a)
{ c14_event *e = c14_new_event(C14_BROADCAST, path, args, 1); c14_arg_i(e, 0, a); }
void rtosc::RtData::broadcast(const char *path, const char *args, double a)
{ c14_event *e = c14_new_event(C14_BROADCAST, path, args, 1); c14_arg_d(e, 0, a); }
void rtosc::RtData::broadcast(const char *path, const char *args, const char *a)
{ c14_event *e = c14_new_event(C14_BROADCAST, path, args, 1); c14_arg_s(e, 0, a); }

/* ---------------------------------------------------------------- message readers (C01) */
extern "C" const char *rtosc_argument_string(const char *msg)
{
    __CPROVER_assert(msg == E.msg, "rtosc_argument_string: called on the dispatched message");
    return E.args;
}

extern "C" rtosc_arg_t rtosc_argument(const char *msg, unsigned idx)
{
    __CPROVER_assert(msg == E.msg, "rtosc_argument: called on the dispatched message");
    __CPROVER_assert(idx == 0 && E.args[0] != 0, "rtosc_argument: precondition idx < number of arguments");
    return E.arg0;
}

/* ---------------------------------------------------------------- metadata (C17) */
const char *rtosc::Port::MetaContainer::operator[](const char *key) const
{
    __CPROVER_assert(str_ptr == E.meta_ptr, "metadata container was built from the port's metadata");
    if(strcmp(key, "min") == 0)
        return E.has_min ? c14_min_txt : (const char *)0;
    if(strcmp(key, "max") == 0)
        return E.has_max ? c14_max_txt : (const char *)0;
    __CPROVER_assert(0, "parameter callbacks look up only \"min\" and \"max\"");
    return (const char *)0;
}

int rtosc::enum_key(rtosc::Port::MetaContainer meta, const char *value)
{
    __CPROVER_assert(meta.str_ptr == E.meta_ptr, "enum_key: called with the port's metadata");
    __CPROVER_assert(value == E.arg0.s, "enum_key: called with the incoming symbol");
    return E.enum_idx;      /* known symbol (unknown symbols are excluded by the property) */
}

/* library helper of ports.cpp (not used by the macros as shipped; declared so that a variant that does use it can be
 * decided): NDEBUG build - its range asserts are compiled out, it returns the integer argument for tags i/c and the
 * index of the symbol otherwise, WITHOUT clamping */
int rtosc::enum_key_from_msg(rtosc::Port::MetaContainer meta, const char *msg)
{
    __CPROVER_assert(msg == E.msg, "enum_key_from_msg: called on the dispatched message");
    __CPROVER_assert(E.args[0] != 0, "enum_key_from_msg: argument 0 exists");
    return (E.args[0] == 'i' || E.args[0] == 'c') ? E.arg0.i : rtosc::enum_key(meta, E.arg0.s);
}
extern "C" char rtosc_type(const char *msg, unsigned idx)
{
    __CPROVER_assert(msg == E.msg && idx == 0 && E.args[0] != 0, "rtosc_type: called on argument 0 of the dispatched message");
    return E.args[0];
}

/* ---------------------------------------------------------------- libc text to number (assumed) */
extern "C" int atoi(const char *t)
{
    if(t == c14_min_txt) return E.min_i;
    if(t == c14_max_txt) return E.max_i;
    __CPROVER_assert(E.idx_txt != 0 && t == E.idx_txt,
                     "atoi: called on declared min/max text or on the first digit of the index in the address");
    return (int)E.idx;
}

extern "C" double atof(const char *t)
{
    if(t == c14_min_txt) return E.min_d;
    __CPROVER_assert(t == c14_max_txt, "atof: called on declared min/max text");
    return E.max_d;
}
#endif
