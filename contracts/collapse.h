/* Contracts (C18) on the mechanically extracted text of parent_path_p / read_path / move_path /
 * Ports::collapsePath (src/cpp/ports.cpp -> ctx.ext/C18_collapse.inc). They are forward declarations
 * placed before the extracted text; goto-instrument --dfcc attaches them.
 *
 * Memory picture: ONE object `base` of C18_LEN+2 bytes; the path is p = base+1, p[C18_LEN] == 0 is a
 * terminator of the string (offset C18_LEN+1 in the object); base[0] (offset 0) is the byte before the path.
 * The code forms p-1 == base, which CBMC can only represent because base[0] exists (see DESIGN section 2).
 * All positions are stated as offsets inside that object. */
#ifndef CONTRACT_COLLAPSE_H
#define CONTRACT_COLLAPSE_H
#include <stddef.h>
#include <stdbool.h>

#ifndef C18_MAXLEN
#define C18_MAXLEN ((size_t)1 << 16)
#endif
extern size_t C18_LEN;                       /* ghost: offset of a terminator relative to p; never assigned by the code */
#define OFF(q)      ((size_t)__CPROVER_POINTER_OFFSET(q))
#define IN_BUF(q, s) (__CPROVER_same_object((q), (s)) && __CPROVER_OBJECT_SIZE(s) == C18_LEN + 2 && C18_LEN <= C18_MAXLEN)

/* reads read[0], read[-1], read[-2] only when read-start >= 2, i.e. never before start */
static bool parent_path_p(char *read, char *start)
__CPROVER_requires(IN_BUF(read, start) && OFF(start) >= 1 && OFF(read) <= C18_LEN + 1)
__CPROVER_assigns()
;

/* moves the cursor down over one component: stops just below its '/' or at start-1; reads only [start, old cursor] */
static void read_path(char **r__p, char *start)
__CPROVER_requires(__CPROVER_rw_ok(r__p, sizeof(*r__p)))
__CPROVER_requires(IN_BUF(*r__p, start) && OFF(start) >= 1 && OFF(*r__p) + 1 >= OFF(start) && OFF(*r__p) <= C18_LEN + 1)
__CPROVER_assigns(*r__p)
__CPROVER_ensures(__CPROVER_same_object(*r__p, start) && OFF(*r__p) + 1 >= OFF(start))
__CPROVER_ensures(OFF(__CPROVER_old(*r__p)) >= OFF(start) ? OFF(*r__p) < OFF(__CPROVER_old(*r__p))
                                                          : OFF(*r__p) == OFF(__CPROVER_old(*r__p)))
;

/* copies one component downwards from the read cursor to the write cursor (write >= read): both cursors move by the
 * same amount, only bytes in [start, old write cursor] are written */
static void move_path(char **r__p, char **w__p, char *start)
__CPROVER_requires(__CPROVER_rw_ok(r__p, sizeof(*r__p)) && __CPROVER_rw_ok(w__p, sizeof(*w__p)) && r__p != w__p)
__CPROVER_requires(IN_BUF(*r__p, start) && __CPROVER_same_object(*w__p, start) && OFF(start) >= 1
                   && OFF(*r__p) + 1 >= OFF(start) && OFF(*r__p) <= OFF(*w__p) && OFF(*w__p) <= C18_LEN)
__CPROVER_assigns(*r__p, *w__p, __CPROVER_object_upto(start, OFF(*w__p) + 1 - OFF(start)))
__CPROVER_ensures(__CPROVER_same_object(*r__p, start) && __CPROVER_same_object(*w__p, start) && OFF(*r__p) + 1 >= OFF(start))
__CPROVER_ensures(OFF(*w__p) - OFF(*r__p) == OFF(__CPROVER_old(*w__p)) - OFF(__CPROVER_old(*r__p)))
__CPROVER_ensures(OFF(__CPROVER_old(*r__p)) >= OFF(start) ? OFF(*r__p) < OFF(__CPROVER_old(*r__p))
                                                          : OFF(*r__p) == OFF(__CPROVER_old(*r__p)))
;

/* sentence 1, safety part, for ANY string with a terminator at p[C18_LEN], C18_LEN <= 2^16:
 * writes only p[0..C18_LEN) (so neither the byte before the path nor the terminator), returns a pointer
 * into [p, p+C18_LEN] of the same buffer; termination by the decreases clauses of the loop contracts. */
char *Ports_collapsePath(char *p)
__CPROVER_requires(C18_LEN <= C18_MAXLEN && __CPROVER_OBJECT_SIZE(p) == C18_LEN + 2 && OFF(p) == 1 && p[C18_LEN] == 0)
__CPROVER_assigns(__CPROVER_object_upto(p, C18_LEN))
__CPROVER_ensures(__CPROVER_same_object(__CPROVER_return_value, p))
__CPROVER_ensures(OFF(__CPROVER_return_value) >= 1 && OFF(__CPROVER_return_value) <= C18_LEN + 1)
__CPROVER_ensures(p[C18_LEN] == 0)
;
#endif
