/* C19 - contracts of AutomationMgr methods, stated over the harness view of the manager (harness/C19/c19_common.h).
 *
 * setSlot(i, v)   [the only callee that is replaced by its contract]
 *   requires  the manager is well formed (nslots slots, per_slot automations each); 0 <= i < nslots is what the
 *             replaced call sites need (asserted there); i = -1, nslots..6, INT_MIN, INT_MAX are checked as well
 *   assigns   slots[i].current_state, and what the recorder sees (messages built / emitted)
 *   ensures   i out of range: nothing changes, nothing is emitted;
 *             i in range: slots[i].current_state == v; exactly one message is built for every sub-automation j of
 *             slot i that is used and has a known parameter type, its address is slots[i].automations[j].param_path,
 *             it is handed to the backend (if one is set); nothing else in the manager changes - in particular not
 *             learning / learn_queue_len / midi_cc / midi_nrpn / the NRPN registers.
 *
 * PROVED against the real (extracted) bodies of setSlot + setSlotSub by obligation C19.setSlot.contract.<config>
 * (c19_check_setSlot_contract below is its postcondition). USED in place of the body by the handleMidi
 * obligations, which compile the extracted code with -DC19_REPLACE_setSlot: the function below is then the
 * definition of AutomationMgr_setSlot - the contract as an executable model (deterministic, because the contract
 * determines every observed effect).
 */
#ifndef C19_CONTRACTS_AUTOMATIONS_H
#define C19_CONTRACTS_AUTOMATIONS_H

static inline bool c19_known_type(char t) { return t == 'i' || t == 'f' || t == 'T' || t == 'F'; }

/* everything of the manager except the two text buffers (slot name, parameter path - never read by the code under
 * verification, only their addresses are passed on) */
struct c19_deep {
    const void *slots, *backend, *impl, *p, *instance;
    int nslots, per_slot, active_slot, k, damaged, reg[4];
    struct { bool active, used; int learning, cc, nrpn; uint32_t cur; const void *automations; } s[NS];
    struct { bool used, active, rel; char type; uint32_t base, mn, mx, step, gain, off, cp[NCP];
             int scale, ctype, npoints, upoints; const void *cps; } a[NS][PS];
};

static void c19_deep_snap(struct c19_deep *d)
{
    d->slots = M.slots; d->backend = (const void *)M.backend; d->impl = M.impl; d->p = M.p; d->instance = M.instance;
    d->nslots = M.nslots; d->per_slot = M.per_slot; d->active_slot = M.active_slot; d->k = M.learn_queue_len;
    d->damaged = M.damaged;
    d->reg[0] = M.NRPN.parhi; d->reg[1] = M.NRPN.parlo; d->reg[2] = M.NRPN.valhi; d->reg[3] = M.NRPN.vallo;
    for(int i = 0; i < NS; i++) {
        const struct AutomationSlot *s = &M.slots[i];
        d->s[i].active = s->active; d->s[i].used = s->used; d->s[i].learning = s->learning; d->s[i].cc = s->midi_cc;
        d->s[i].nrpn = s->midi_nrpn; d->s[i].cur = c19_u(s->current_state); d->s[i].automations = s->automations;
        for(int j = 0; j < PS; j++) {
            const struct Automation *a = &s->automations[j];
            d->a[i][j].used = a->used; d->a[i][j].active = a->active; d->a[i][j].rel = a->relative;
            d->a[i][j].type = a->param_type; d->a[i][j].base = c19_u(a->param_base_value);
            d->a[i][j].mn = c19_u(a->param_min); d->a[i][j].mx = c19_u(a->param_max);
            d->a[i][j].step = c19_u(a->param_step); d->a[i][j].gain = c19_u(a->map.gain);
            d->a[i][j].off = c19_u(a->map.offset); d->a[i][j].scale = a->map.control_scale;
            d->a[i][j].ctype = a->map.control_type; d->a[i][j].npoints = a->map.npoints;
            d->a[i][j].upoints = a->map.upoints; d->a[i][j].cps = a->map.control_points;
            for(int c = 0; c < NCP; c++) d->a[i][j].cp[c] = c19_u(a->map.control_points[c]);
        }
    }
}

/* a == b except (optionally) the current_state of slot `except_cur` (no early exits: cheap for symbolic execution) */
static bool c19_deep_eq(const struct c19_deep *x, const struct c19_deep *y, int except_cur)
{
    bool e = x->slots == y->slots && x->backend == y->backend && x->impl == y->impl && x->p == y->p
          && x->instance == y->instance && x->nslots == y->nslots && x->per_slot == y->per_slot
          && x->active_slot == y->active_slot && x->k == y->k && x->damaged == y->damaged;
    for(int r = 0; r < 4; r++) e = e & (x->reg[r] == y->reg[r]);
    for(int i = 0; i < NS; i++) {
        e = e & (x->s[i].active == y->s[i].active) & (x->s[i].used == y->s[i].used)
              & (x->s[i].learning == y->s[i].learning) & (x->s[i].cc == y->s[i].cc) & (x->s[i].nrpn == y->s[i].nrpn)
              & (x->s[i].automations == y->s[i].automations) & (i == except_cur || x->s[i].cur == y->s[i].cur);
        for(int j = 0; j < PS; j++) {
            e = e & (x->a[i][j].used == y->a[i][j].used) & (x->a[i][j].active == y->a[i][j].active)
                  & (x->a[i][j].rel == y->a[i][j].rel) & (x->a[i][j].type == y->a[i][j].type)
                  & (x->a[i][j].base == y->a[i][j].base) & (x->a[i][j].mn == y->a[i][j].mn)
                  & (x->a[i][j].mx == y->a[i][j].mx) & (x->a[i][j].step == y->a[i][j].step)
                  & (x->a[i][j].gain == y->a[i][j].gain) & (x->a[i][j].off == y->a[i][j].off)
                  & (x->a[i][j].scale == y->a[i][j].scale) & (x->a[i][j].ctype == y->a[i][j].ctype)
                  & (x->a[i][j].npoints == y->a[i][j].npoints) & (x->a[i][j].upoints == y->a[i][j].upoints)
                  & (x->a[i][j].cps == y->a[i][j].cps);
            for(int c = 0; c < NCP; c++) e = e & (x->a[i][j].cp[c] == y->a[i][j].cp[c]);
        }
    }
    return e;
}

/* -DSYMCFG: the slots beyond nslots and the automations beyond per_slot do not belong to the manager: never written,
 * never the address of a message */
static bool c19_beyond_untouched(const struct c19_deep *x, const struct c19_deep *y)
{
    bool e = true;
    for(int i = 0; i < NS; i++) {
        if(i >= CN)
            e = e & (x->s[i].active == y->s[i].active) & (x->s[i].used == y->s[i].used)
                  & (x->s[i].learning == y->s[i].learning) & (x->s[i].cc == y->s[i].cc) & (x->s[i].nrpn == y->s[i].nrpn)
                  & (x->s[i].automations == y->s[i].automations) & (x->s[i].cur == y->s[i].cur);
        for(int j = 0; j < PS; j++) {
            if(i < CN && j < CPS) continue;
            e = e & (REC.per[i][j] == 0);
            e = e & (x->a[i][j].used == y->a[i][j].used) & (x->a[i][j].active == y->a[i][j].active)
                  & (x->a[i][j].rel == y->a[i][j].rel) & (x->a[i][j].type == y->a[i][j].type)
                  & (x->a[i][j].base == y->a[i][j].base) & (x->a[i][j].mn == y->a[i][j].mn)
                  & (x->a[i][j].mx == y->a[i][j].mx) & (x->a[i][j].step == y->a[i][j].step)
                  & (x->a[i][j].gain == y->a[i][j].gain) & (x->a[i][j].off == y->a[i][j].off)
                  & (x->a[i][j].scale == y->a[i][j].scale) & (x->a[i][j].ctype == y->a[i][j].ctype)
                  & (x->a[i][j].npoints == y->a[i][j].npoints) & (x->a[i][j].upoints == y->a[i][j].upoints)
                  & (x->a[i][j].cps == y->a[i][j].cps);
            for(int c = 0; c < NCP; c++) e = e & (x->a[i][j].cp[c] == y->a[i][j].cp[c]);
        }
    }
    return e;
}

/* postcondition of setSlot(slot_id, value) over (pre, post, recorder); the recorder was empty before the call */
static void c19_check_setSlot_contract(const struct c19_deep *pre, const struct c19_deep *post, int slot_id, uint32_t value_bits)
{
    bool in = slot_id >= 0 && slot_id < CN;
    V_ASSERT(c19_deep_eq(pre, post, in ? slot_id : -1), "C19 setSlot contract: nothing in the manager changes but slots[i].current_state");
    unsigned total = 0;
    for(int i = 0; i < NS; i++)
        for(int j = 0; j < PS; j++) {
            unsigned want = (in && i == slot_id && j < CPS && pre->a[i][j].used && c19_known_type(pre->a[i][j].type)) ? 1 : 0;
            V_ASSERT(REC.per[i][j] == want, "C19 setSlot contract: exactly one message per used parameter of slot i, none for any other");
            total += want;
        }
    if(in) V_ASSERT(post->s[slot_id].cur == value_bits, "C19 setSlot contract: slot value becomes v");
    V_ASSERT(REC.n_msg == total && REC.n_foreign == 0, "C19 setSlot contract: no message to any other address");
    V_ASSERT(REC.emit_mismatch == 0 && REC.n_emit == (pre->backend ? total : 0), "C19 setSlot contract: every message built is emitted once");
}

#ifdef C19_REPLACE_setSlot
/* the contract above as the definition of the callee */
void AutomationMgr_setSlot(struct AutomationMgr *self, int slot_id, float value)
{
    /* requires: the contract is proved (and used) for the slot indices handleMidi can pass */
    V_ASSERT(slot_id >= 0 && slot_id < self->nslots, "C19 setSlot contract precondition: 0 <= slot_id < nslots at the call site");
    for(int j = 0; j < self->per_slot; j++) {
        const struct Automation *a = &self->slots[slot_id].automations[j];
        if(a->used && c19_known_type(a->param_type)) {
            REC.n_msg++;
            REC.per[slot_id][j]++;
            if(self->backend) REC.n_emit++;
        }
    }
    self->slots[slot_id].current_state = value;
}
#endif
#endif
