/* Contracts (C05) for the pattern matcher of src/dispatch.c: memory safety, frame, progress.
 * They are forward declarations placed before the real translation unit is included; goto-instrument
 * --dfcc attaches them to the real functions. Nothing here is compiled into a native build.
 *
 * Strings are described by ghost globals that the proof harness sets up (harness/C05/proof.c):
 *   G_PB / G_PN  base and size of the object that holds the pattern, G_PB[G_PN-1] == 0
 *   G_MB / G_MN  the same for the message (address) string
 * "p is a cursor into the string" = same object as the base, offset < size. Because the last byte of the
 * object is NUL and every loop of the matcher stops at a NUL, a cursor never leaves its object; a cursor
 * at any offset stands for "any suffix", so the contracts cover calls from the middle of a string. */
#ifndef CONTRACT_DISPATCH_MATCH_H
#define CONTRACT_DISPATCH_MATCH_H
#include <rtosc/rtosc.h>
#include <stddef.h>
#include <stdbool.h>

#define C05_MAXSTR ((size_t)4096)
const char *G_PB, *G_MB;
size_t      G_PN,  G_MN;

#define C05_OFF(p)       ((size_t)__CPROVER_POINTER_OFFSET(p))
#define C05_IN(p, B, N)  (__CPROVER_same_object((p), (B)) && C05_OFF(p) < (N))
#define C05_IN_P(p)      C05_IN(p, G_PB, G_PN)
#define C05_IN_M(p)      C05_IN(p, G_MB, G_MN)
/* what the harness establishes and nothing in the matcher can change (no write to a string) */
#define C05_STRINGS_OK   (G_PN >= 1 && G_PN <= C05_MAXSTR && G_MN >= 1 && G_MN <= C05_MAXSTR \
                          && C05_OFF(G_PB) == 0 && C05_OFF(G_MB) == 0 \
                          && __CPROVER_OBJECT_SIZE(G_PB) == G_PN && __CPROVER_OBJECT_SIZE(G_MB) == G_MN \
                          && G_PB[G_PN - 1] == 0 && G_MB[G_MN - 1] == 0)

/* libc, ASSUMED: atoi reads the string it is given and writes nothing */
int atoi(const char *nptr)
__CPROVER_requires(C05_IN_P(nptr) || C05_IN_M(nptr))
__CPROVER_assigns()
;

/* #N against a decimal index: both cursors stay in their strings and only move forward */
static bool rtosc_match_number(const char **pattern, const char **msg)
__CPROVER_requires(C05_STRINGS_OK)
__CPROVER_requires(__CPROVER_w_ok(pattern, sizeof(*pattern)) && __CPROVER_w_ok(msg, sizeof(*msg)))
__CPROVER_requires(C05_IN_P(*pattern) && C05_IN_M(*msg))
__CPROVER_assigns(*pattern, *msg)
__CPROVER_ensures(C05_IN_P(*pattern) && C05_OFF(*pattern) >= C05_OFF(__CPROVER_old(*pattern)))
__CPROVER_ensures(C05_IN_M(*msg)     && C05_OFF(*msg)     >= C05_OFF(__CPROVER_old(*msg)))
;

/* {a,b,...}: NULL, or a cursor strictly behind the '{' it was given; the message cursor stays in its
 * string and does not move backwards */
const char *rtosc_match_options(const char *pattern, const char **msg)
__CPROVER_requires(C05_STRINGS_OK)
__CPROVER_requires(__CPROVER_w_ok(msg, sizeof(*msg)))
__CPROVER_requires(C05_IN_P(pattern) && *pattern == '{' && C05_IN_M(*msg))
__CPROVER_assigns(*msg)
__CPROVER_ensures(__CPROVER_return_value == NULL ||
                  (C05_IN_P(__CPROVER_return_value) && C05_OFF(__CPROVER_return_value) > C05_OFF(pattern)))
__CPROVER_ensures(C05_IN_M(*msg) && C05_OFF(*msg) >= C05_OFF(__CPROVER_old(*msg)))
;

/* the path part: NULL, or a cursor into the pattern; *path_end (if asked for) is a cursor into the message */
const char *rtosc_match_path(const char *pattern, const char *msg, const char **path_end)
__CPROVER_requires(C05_STRINGS_OK)
__CPROVER_requires(path_end == NULL || __CPROVER_w_ok(path_end, sizeof(*path_end)))
__CPROVER_requires(C05_IN_P(pattern) && C05_IN_M(msg))
__CPROVER_assigns(path_end != NULL: *path_end)
__CPROVER_ensures(__CPROVER_return_value == NULL ||
                  (C05_IN_P(__CPROVER_return_value) && C05_OFF(__CPROVER_return_value) >= C05_OFF(pattern)))
__CPROVER_ensures(__CPROVER_return_value == NULL || path_end == NULL ||
                  (C05_IN_M(*path_end) && C05_OFF(*path_end) >= C05_OFF(msg)))
;
#endif
