/* Contracts (C07) on the untrusted-bytes path of src/rtosc.c. They are forward declarations placed
 * before the real translation unit is included; goto-instrument --dfcc attaches them to the real
 * functions. Nothing here is compiled into a native build. */
#ifndef CONTRACT_RTOSC_VALIDATE_H
#define CONTRACT_RTOSC_VALIDATE_H
#include <rtosc/rtosc.h>

#define C07_MAXLEN ((size_t)1 << 24)
/* a readable two-segment "ring": each segment is its own object of exactly len bytes */
#define RING_OK(ring) ( __CPROVER_is_fresh(ring, 2*sizeof(ring_t)) \
    && (ring)[0].len <= C07_MAXLEN && (ring)[1].len <= C07_MAXLEN \
    && ((ring)[0].len == 0 || __CPROVER_is_fresh((ring)[0].data, (ring)[0].len)) \
    && ((ring)[1].len == 0 || __CPROVER_is_fresh((ring)[1].data, (ring)[1].len)) )

/* deref: byte `pos` of the concatenation of the two segments, 0 beyond its end; reads nothing else */
static unsigned char deref(unsigned pos, ring_t *ring)
__CPROVER_requires(RING_OK(ring))
__CPROVER_assigns()
__CPROVER_ensures(__CPROVER_return_value ==
    (pos < ring[0].len ? (unsigned char)ring[0].data[pos] :
     ((pos - ring[0].len) < ring[1].len ? (unsigned char)ring[1].data[pos - ring[0].len] : 0)))
;

static size_t bundle_ring_length(ring_t *ring)
__CPROVER_requires(RING_OK(ring))
__CPROVER_assigns()
__CPROVER_ensures(__CPROVER_return_value == 0 || __CPROVER_return_value <= ring[0].len + ring[1].len)
;

size_t rtosc_message_ring_length(ring_t *ring)
__CPROVER_requires(RING_OK(ring))
__CPROVER_assigns()
__CPROVER_ensures(__CPROVER_return_value == 0 || __CPROVER_return_value <= ring[0].len + ring[1].len)
;

size_t rtosc_message_length(const char *msg, size_t len)
__CPROVER_requires(len <= C07_MAXLEN && (len == 0 || __CPROVER_is_fresh(msg, len)))
__CPROVER_assigns()
__CPROVER_ensures(__CPROVER_return_value == 0 || __CPROVER_return_value <= len)
;

bool rtosc_valid_message_p(const char *msg, size_t len)
__CPROVER_requires(len <= C07_MAXLEN && (len == 0 || __CPROVER_is_fresh(msg, len)))
__CPROVER_assigns()
;
#endif
