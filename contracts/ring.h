/* Contracts (C06) on the ring buffer and ThreadLink operations of src/cpp/thread-link.cpp (extracted
 * mechanically on every run into thread_link_{types,ring,methods}.inc). Abstract view of a ring:
 *   view(ring) = bytes buffer[(read+k) mod size], k < USED(write, read, size)
 *   well formed: 2 <= size, all three indices inside [0,size), lookahead position between read and write. */
#ifndef CONTRACT_RING_H
#define CONTRACT_RING_H

#ifndef RING_SMAX
#define RING_SMAX (1UL<<30)
#endif
/* number of bytes from index r up to index w going forward; division-free on purpose */
#define USED(w, r, S) ((size_t)(w) >= (size_t)(r) ? (size_t)(w) - (size_t)(r) : (size_t)(w) + (S) - (size_t)(r))
/* (a + b) mod S for a < S, b <= S */
#define IDX(a, b, S)  ((size_t)(a) + (size_t)(b) >= (S) ? (size_t)(a) + (size_t)(b) - (S) : (size_t)(a) + (size_t)(b))

#define RING_WF_NUM(ring) ( (ring)->size >= 2 && (ring)->size <= RING_SMAX \
    && (ring)->write >= 0 && (size_t)(ring)->write < (ring)->size \
    && (ring)->read  >= 0 && (size_t)(ring)->read  < (ring)->size \
    && (ring)->read_lookahead >= 0 && (size_t)(ring)->read_lookahead < (ring)->size \
    && USED((ring)->write, (ring)->read_lookahead, (ring)->size) <= USED((ring)->write, (ring)->read, (ring)->size) )
#define RING_WF(ring) ( __CPROVER_is_fresh(ring, sizeof(ringbuffer_t)) && RING_WF_NUM(ring) \
    && __CPROVER_is_fresh((ring)->buffer, (ring)->size) )

/* ghost offsets: arbitrary, never assigned by the code; "for the arbitrary GK ..." is the forall */
extern size_t GK, GQ;
/* ghost copies of the indices at entry, used by the publication-order wrapper around memcpy (harness/C06/ring.c) */
extern off_t G_W0, G_R0, G_L0;
#ifdef ORDER_GHOSTS
#define ENTRY_GHOSTS(ring) (G_W0 == (ring)->write && G_R0 == (ring)->read && G_L0 == (ring)->read_lookahead)
#else
#define ENTRY_GHOSTS(ring) 1
#endif

static size_t ring_read_size(ringbuffer_t *ring, bool lookahead)
__CPROVER_requires(RING_WF(ring))
__CPROVER_assigns()
__CPROVER_ensures(__CPROVER_return_value == USED(ring->write, lookahead ? ring->read_lookahead : ring->read, ring->size))
;

static size_t ring_write_size(ringbuffer_t *ring)
__CPROVER_requires(RING_WF(ring))
__CPROVER_assigns()
__CPROVER_ensures(__CPROVER_return_value == ring->size - 1 - USED(ring->write, ring->read, ring->size))
;

static void ring_read_vector(ringbuffer_t *ring, ring_t *r, bool lookahead)
__CPROVER_requires(RING_WF(ring) && __CPROVER_is_fresh(r, 2 * sizeof(ring_t)))
__CPROVER_assigns(__CPROVER_object_whole(r))
/* the two segments concatenate to the view and lie inside the buffer */
__CPROVER_ensures(r[0].len + r[1].len == USED(ring->write, lookahead ? ring->read_lookahead : ring->read, ring->size))
__CPROVER_ensures(r[0].data == ring->buffer + (lookahead ? ring->read_lookahead : ring->read))
__CPROVER_ensures(r[0].len <= ring->size - (size_t)(lookahead ? ring->read_lookahead : ring->read))
__CPROVER_ensures(r[1].len == 0 || (r[1].data == ring->buffer
                  && r[0].len == ring->size - (size_t)(lookahead ? ring->read_lookahead : ring->read)
                  && r[1].len <= (size_t)(lookahead ? ring->read_lookahead : ring->read)))
;

static void ring_write(ringbuffer_t *ring, const char *data, size_t len)
__CPROVER_requires(RING_WF(ring))
__CPROVER_requires(len <= ring->size - 1 - USED(ring->write, ring->read, ring->size))      /* fits the free space */
__CPROVER_requires(__CPROVER_is_fresh(data, len > 0 ? len : 1))
__CPROVER_requires(ENTRY_GHOSTS(ring) && GQ < ring->size)
__CPROVER_assigns(ring->write, __CPROVER_object_upto(ring->buffer, ring->size))           /* writer owns write + buffer bytes only */
__CPROVER_ensures((size_t)ring->write == IDX(__CPROVER_old(ring->write), len, ring->size))
__CPROVER_ensures(USED(ring->write, ring->read, ring->size) == USED(__CPROVER_old(ring->write), ring->read, ring->size) + len)
__CPROVER_ensures(USED(ring->write, ring->read, ring->size) <= ring->size - 1)            /* never fills the last free byte */
/* queued bytes are not disturbed: for the arbitrary buffer position GQ that lies inside the old view */
__CPROVER_ensures(USED(GQ, ring->read, ring->size) >= USED(__CPROVER_old(ring->write), ring->read, ring->size) ||
                  ring->buffer[GQ] == __CPROVER_old(ring->buffer[GQ]))
#ifdef CONTENT
/* view' = view || data: for the arbitrary offset GK < len */
__CPROVER_ensures(GK >= len || ring->buffer[IDX(__CPROVER_old(ring->write), GK, ring->size)] == data[GK])
#endif
;

static void ring_read(ringbuffer_t *ring, char *data, size_t len, bool lookahead)
__CPROVER_requires(RING_WF(ring))
__CPROVER_requires(len <= USED(ring->write, lookahead ? ring->read_lookahead : ring->read, ring->size))
__CPROVER_requires(__CPROVER_is_fresh(data, len > 0 ? len : 1))
__CPROVER_requires(ENTRY_GHOSTS(ring))
__CPROVER_assigns(ring->read, ring->read_lookahead, __CPROVER_object_upto(data, len))     /* reader owns read + read_lookahead only */
__CPROVER_ensures(lookahead  ? (ring->read == __CPROVER_old(ring->read)
                                && (size_t)ring->read_lookahead == IDX(__CPROVER_old(ring->read_lookahead), len, ring->size))
                             : ((size_t)ring->read == IDX(__CPROVER_old(ring->read), len, ring->size)
                                && ring->read_lookahead == ring->read))                    /* a normal read resynchronises the lookahead */
__CPROVER_ensures(USED(ring->write, ring->read_lookahead, ring->size) <= USED(ring->write, ring->read, ring->size))
#ifdef CONTENT
/* dst == view[0..len): for the arbitrary offset GK < len */
__CPROVER_ensures(GK >= len || data[GK] ==
                  ring->buffer[IDX(lookahead ? __CPROVER_old(ring->read_lookahead) : __CPROVER_old(ring->read), GK, ring->size)])
#endif
;

#ifdef MEMCPY_CONTRACT
/* safety-only contract of memcpy: its readable/writable preconditions are CHECKED at every call site */
void *memcpy(void *dst, const void *src, size_t n)
__CPROVER_requires(n == 0 || (__CPROVER_w_ok(dst, n) && __CPROVER_r_ok(src, n)))
__CPROVER_assigns(__CPROVER_object_upto(dst, n))
__CPROVER_ensures(__CPROVER_return_value == dst)
;
#endif

#ifdef THREADLINK
/* ---- ThreadLink: MaxMsg-sized staging buffers around one ring of BufferSize bytes */
#define TL_WF(tl) ( __CPROVER_is_fresh(tl, sizeof(struct ThreadLink)) && (tl)->MaxMsg >= 1 && (tl)->MaxMsg <= RING_SMAX \
    && __CPROVER_is_fresh((tl)->write_buffer, (tl)->MaxMsg) && __CPROVER_is_fresh((tl)->read_buffer, (tl)->MaxMsg) \
    && RING_WF((tl)->ring) && (tl)->ring->size == (tl)->BufferSize )

extern size_t G_MSGLEN;   /* ghost: true length of the (valid) message handed to raw_write */

/* ASSUMED contracts of the codec callees, in the form these call sites need (proved elsewhere, see ASSUMPTIONS):
 * rtosc_message_length(msg,-1) on a valid message returns its length (C01);
 * rtosc_amessage writes only inside [buffer,buffer+len) and returns 0 or a size <= len (C02);
 * rtosc_message_ring_length returns 0 or <= the bytes available (C07) - and, by the writer-side guarantee below, <= MaxMsg. */
size_t rtosc_message_length(const char *msg, size_t len)
__CPROVER_requires(G_MSGLEN >= 1 && G_MSGLEN <= RING_SMAX && __CPROVER_r_ok(msg, G_MSGLEN))
__CPROVER_assigns()
__CPROVER_ensures(__CPROVER_return_value == G_MSGLEN)
;
size_t rtosc_amessage(char *buffer, size_t len, const char *address, const char *arguments, const rtosc_arg_t *args)
__CPROVER_requires(__CPROVER_w_ok(buffer, len))                 /* CHECKED at the call site: capacity passed is the true capacity */
__CPROVER_assigns(__CPROVER_object_upto(buffer, len))
__CPROVER_ensures(__CPROVER_return_value <= len)
;
size_t rtosc_vmessage(char *buffer, size_t len, const char *address, const char *arguments, va_list va)
__CPROVER_requires(__CPROVER_w_ok(buffer, len))                 /* CHECKED at the call site */
__CPROVER_assigns(__CPROVER_object_upto(buffer, len))
__CPROVER_ensures(__CPROVER_return_value <= len)
;
extern size_t G_MAXMSG;   /* ghost: MaxMsg of the link under proof (rely: queued messages are <= MaxMsg) */
size_t rtosc_message_ring_length(ring_t *ring)
__CPROVER_requires(__CPROVER_r_ok(ring, 2 * sizeof(ring_t)))
__CPROVER_requires(ring[0].len == 0 || __CPROVER_r_ok(ring[0].data, ring[0].len))
__CPROVER_requires(ring[1].len == 0 || __CPROVER_r_ok(ring[1].data, ring[1].len))
__CPROVER_assigns()
__CPROVER_ensures(__CPROVER_return_value <= ring[0].len + ring[1].len && __CPROVER_return_value <= G_MAXMSG)
;

bool ThreadLink_hasNext(struct ThreadLink *self, bool lookahead)
__CPROVER_requires(TL_WF(self))
__CPROVER_assigns()
/* false exactly when everything accepted has been consumed (by that queue) */
__CPROVER_ensures(__CPROVER_return_value ==
    (USED(self->ring->write, lookahead ? self->ring->read_lookahead : self->ring->read, self->ring->size) != 0))
;

void ThreadLink_raw_write(struct ThreadLink *self, const char *msg)
__CPROVER_requires(TL_WF(self) && GQ < self->ring->size && G_MSGLEN >= 1 && G_MSGLEN <= RING_SMAX && __CPROVER_is_fresh(msg, G_MSGLEN))
__CPROVER_assigns(self->ring->write, __CPROVER_object_upto(self->ring->buffer, self->ring->size))
/* accepted whole (only if it fits the free space AND the maximum message size) or dropped whole */
__CPROVER_ensures(
    (G_MSGLEN <= self->MaxMsg && G_MSGLEN <= self->ring->size - 1 - USED(__CPROVER_old(self->ring->write), self->ring->read, self->ring->size))
      ? (size_t)self->ring->write == IDX(__CPROVER_old(self->ring->write), G_MSGLEN, self->ring->size)
      : self->ring->write == __CPROVER_old(self->ring->write))
__CPROVER_ensures(USED(GQ, self->ring->read, self->ring->size) >= USED(__CPROVER_old(self->ring->write), self->ring->read, self->ring->size)
    || self->ring->buffer[GQ] == __CPROVER_old(self->ring->buffer[GQ]))
;

void ThreadLink_writeArray(struct ThreadLink *self, const char *dest, const char *args, const rtosc_arg_t *aargs)
__CPROVER_requires(TL_WF(self) && GQ < self->ring->size)
__CPROVER_assigns(self->ring->write, __CPROVER_object_upto(self->ring->buffer, self->ring->size),
                  __CPROVER_object_upto(self->write_buffer, self->MaxMsg))
/* whatever is enqueued is at most MaxMsg bytes (the guarantee ThreadLink::read relies on) and fits the free space */
__CPROVER_ensures(USED(self->ring->write, self->ring->read, self->ring->size)
                  - USED(__CPROVER_old(self->ring->write), self->ring->read, self->ring->size) <= self->MaxMsg)
__CPROVER_ensures(USED(self->ring->write, self->ring->read, self->ring->size)
                  >= USED(__CPROVER_old(self->ring->write), self->ring->read, self->ring->size))
__CPROVER_ensures(USED(GQ, self->ring->read, self->ring->size) >= USED(__CPROVER_old(self->ring->write), self->ring->read, self->ring->size)
    || self->ring->buffer[GQ] == __CPROVER_old(self->ring->buffer[GQ]))
;

void ThreadLink_write(struct ThreadLink *self, const char *dest, const char *args, ...)
__CPROVER_requires(TL_WF(self) && GQ < self->ring->size)
__CPROVER_assigns(self->ring->write, __CPROVER_object_upto(self->ring->buffer, self->ring->size),
                  __CPROVER_object_upto(self->write_buffer, self->MaxMsg))
__CPROVER_ensures(USED(self->ring->write, self->ring->read, self->ring->size)
                  - USED(__CPROVER_old(self->ring->write), self->ring->read, self->ring->size) <= self->MaxMsg)
__CPROVER_ensures(USED(self->ring->write, self->ring->read, self->ring->size)
                  >= USED(__CPROVER_old(self->ring->write), self->ring->read, self->ring->size))
__CPROVER_ensures(USED(GQ, self->ring->read, self->ring->size) >= USED(__CPROVER_old(self->ring->write), self->ring->read, self->ring->size)
    || self->ring->buffer[GQ] == __CPROVER_old(self->ring->buffer[GQ]))
;

msg_t ThreadLink_read(struct ThreadLink *self, bool lookahead)
__CPROVER_requires(TL_WF(self) && G_MAXMSG == self->MaxMsg)
__CPROVER_assigns(self->ring->read, self->ring->read_lookahead, __CPROVER_object_upto(self->read_buffer, self->MaxMsg))
__CPROVER_ensures(__CPROVER_return_value == self->read_buffer)
/* consumes at most what is available, never touches write or the ring bytes (not in the frame) */
__CPROVER_ensures(USED(self->ring->write, lookahead ? self->ring->read_lookahead : self->ring->read, self->ring->size)
                  <= USED(self->ring->write, lookahead ? __CPROVER_old(self->ring->read_lookahead) : __CPROVER_old(self->ring->read), self->ring->size))
__CPROVER_ensures(lookahead ? self->ring->read == __CPROVER_old(self->ring->read) : self->ring->read_lookahead == self->ring->read)
;
#endif
#endif
